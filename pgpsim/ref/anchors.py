"""Anchors: the reference peer must agree with GnuPG-made fixtures in
/repo/tests/testdata before any oracle verdict is believed.  A failure here is a
harness error, never a violation.  Uses no pgpy code."""
import glob
import os

from . import algo, armor, enc, keys, sigs, tkey
from .wire import split_packets


class AnchorError(Exception):
    pass


def _td(*p):
    repo = os.environ.get('PGPSIM_ANCHOR_REPO') or os.environ.get('PGPSIM_REPO', '/repo')
    return os.path.join(repo, 'tests', 'testdata', *p)


def _read(*p):
    with open(_td(*p), 'rb') as f:
        return f.read()


def _dearmor(*p):
    blk = armor.dearmor(_read(*p).decode('latin-1'))
    if blk.crc is not None and not blk.crc_ok:
        raise AnchorError('CRC mismatch in fixture %s' % '/'.join(p))
    return blk


def _keys_with_secrets(path, passphrase=None):
    out = []
    for tk in tkey.parse_keys(_dearmor(*path).payload):
        ents = []
        if tk.sec is not None:
            ents.append((tk.pub, tk.sec))
        for c in tk.subkeys:
            if c.sec is not None:
                ents.append((c.key, c.sec))
        for pub, sec in ents:
            try:
                out.append((pub, keys.unprotect(sec, passphrase)))
            except keys.KeyError_:
                pass
    return out


def run(verbose=False):
    n = 0

    def ok(cond, what):
        nonlocal n
        if not cond:
            raise AnchorError('reference peer disagrees with fixture: ' + what)
        n += 1
        if verbose:
            print('  anchor ok:', what)

    # -- armor + CRC on every block fixture
    for f in sorted(glob.glob(_td('blocks', '*.asc')) + glob.glob(_td('keys', '*.asc')) + glob.glob(_td('messages', '*.asc'))):
        blk = armor.dearmor(open(f, 'rb').read().decode('latin-1'))
        ok(blk.crc is None or blk.crc_ok, 'CRC-24 of %s' % os.path.basename(f))
        if blk.label not in ('SIGNED MESSAGE', 'ARMORED FILE'):
            split_packets(blk.payload)
    # -- transferable keys: structure + every self-signature verifies
    for f in sorted(glob.glob(_td('keys', '*.asc'))) + [_td('pubtest.asc'), _td('sectest.asc')]:
        blk = armor.dearmor(open(f, 'rb').read().decode('latin-1'))
        for tk in tkey.parse_keys(blk.payload):
            res = tkey.check_self_sigs(tk)
            ok(len(res) > 0 and all(r[2] for r in res), 'self-signatures of %s (%d)' % (os.path.basename(f), len(res)))
    # -- detached signatures made by GnuPG / apt (RSA, DSA, ECDSA)
    for name in ('debian-sid', 'ubuntu-precise', 'aptapproval-test'):
        kb = armor.dearmor(_read('signatures', name + '.key.asc').decode('latin-1')).payload
        sb = armor.dearmor(_read('signatures', name + '.sig.asc').decode('latin-1')).payload
        subj = _read('signatures', name + '.subj')
        tks = tkey.parse_keys(kb)
        cands = []
        for tk in tks:
            cands.append(tk.pub)
            cands.extend(c.key for c in tk.subkeys)
        for p in split_packets(sb):
            if p.tag != 2:
                continue
            s = sigs.parse_sig(p.body)
            signer = [k for k in cands if k.keyid == s.issuer]
            ok(signer and sigs.verify(s, signer[0], sigs.subject_document(s.type, subj), check_left16=True),
               'detached signature %s (alg %d hash %d)' % (name, s.pkalg, s.halg))
            # sensitivity: one flipped subject bit must fail
            bad = bytes([subj[0] ^ 1]) + subj[1:]
            ok(not sigs.verify(s, signer[0], sigs.subject_document(s.type, bad)), 'detached signature %s rejects a flipped bit' % name)
    # -- secret key protection: every cipher GnuPG used, SHA-1 check, right and wrong passphrase
    for f in sorted(glob.glob(_td('packets', '05.v4.enc.*.privkey'))):
        p = split_packets(open(f, 'rb').read())[0]
        sec = keys.parse_sec(p.body)
        try:
            secret = keys.unprotect(sec, 'QwertyUiop')
            good = keys.public_matches_secret(sec.pub, secret)
        except Exception as e:
            good = False
            secret = e
        ok(good, 'unprotect %s with the suite passphrase (%r)' % (os.path.basename(f), secret if not good else ''))
        try:
            keys.unprotect(sec, 'wrong')
            bad = True
        except keys.KeyError_:
            bad = False
        ok(not bad, 'wrong passphrase rejected for %s' % os.path.basename(f))
    for name in ('rsa.1', 'dsa.1'):
        enc_keys = _keys_with_secrets(('keys', name + '.enc.asc'), 'QwertyUiop')
        clr_keys = _keys_with_secrets(('keys', name + '.sec.asc'))
        ok(len(enc_keys) == len(clr_keys) and len(enc_keys) > 0 and
           all(a[1] == b[1] for a, b in zip(enc_keys, clr_keys)), 'protected %s yields the same secret integers as the unprotected export' % name)
        ok(all(keys.public_matches_secret(p, s) for p, s in clr_keys), 'secret/public consistency of %s' % name)
    for name in ('ecc.1', 'ecc.2', 'mixed.1'):
        ks = _keys_with_secrets(('keys', name + '.sec.asc'))
        ok(ks and all(keys.public_matches_secret(p, s) for p, s in ks if p.alg not in (keys.ELG,) and p.curve not in ('bp256', 'bp384', 'bp512')),
           'secret/public consistency of %s' % name)
    # -- encrypted messages made by GnuPG
    rsa = _keys_with_secrets(('keys', 'rsa.1.sec.asc'))
    dsa = _keys_with_secrets(('keys', 'dsa.1.sec.asc'))
    ecc = _keys_with_secrets(('keys', 'ecc.1.sec.asc')) + _keys_with_secrets(('keys', 'ecc.2.sec.asc')) + \
        _keys_with_secrets(('keys', 'mixed.1.sec.asc'))
    cases = [
        ('message.rsa.cast5.asc', None, rsa), ('message.rsa.cast5.no-mdc.asc', None, rsa),
        ('message.rsa.dsa.3des.asc', None, rsa), ('message.rsa.dsa.cam128.asc', None, rsa),
        ('message.rsa.dsa.pass.aes.asc', 'QwertyUiop', ()), ('message.rsa.dsa.pass.aes.asc', None, rsa),
        ('message.nomdc.pass.asc', 'QwertyUiop', ()), ('message.literal.nomdc.pass.cast5.asc', 'QwertyUiop', ()),
        ('message.ecdh.cv25519.asc', None, ecc),
    ]
    for fn, pw, rec in cases:
        if not os.path.exists(_td('messages', fn)):
            continue
        data = _dearmor('messages', fn).payload
        try:
            pt, info = enc.decrypt_message(data, pw, rec)
            sh = enc.recognise(pt)
            good = not sh.errors and sh.literal is not None
            note = sh.errors
        except Exception as e:
            good = False
            note = repr(e)
        ok(good, 'decrypt %s (%s): %s' % (fn, 'passphrase' if pw else 'key', note if not good else 'ok'))
        if pw:
            try:
                enc.decrypt_message(data, 'not the passphrase', ())
                bad = True
            except enc.DecryptError:
                bad = False
            ok(not bad, 'wrong passphrase rejected for %s' % fn)
    # -- reference encryptor round trip through the reference decryptor (all ciphers)
    for cid in (2, 3, 4, 7, 8, 9, 11, 12, 13):
        key = bytes(range(algo.key_size(cid)))
        pre = bytes(range(100, 100 + algo.block_size(cid)))
        body = enc.seipd_encrypt(cid, key, b'hello world' * 7, pre)
        pt, prefix = enc.seipd_decrypt(cid, key, body)
        ok(pt == b'hello world' * 7 and prefix == pre, 'SEIPD round trip cipher %d' % cid)
        c2 = enc.sed_encrypt(cid, key, b'hello world' * 7, pre)
        pt2, _ = enc.sed_decrypt(cid, key, c2)
        ok(pt2 == b'hello world' * 7, 'SED round trip cipher %d' % cid)
    # RFC 3394 test vector 4.1
    kek = bytes.fromhex('000102030405060708090A0B0C0D0E0F')
    kd = bytes.fromhex('00112233445566778899AABBCCDDEEFF')
    w = algo.aes_wrap(kek, kd)
    ok(w.hex().upper() == '1FA68B0A8112B447AEF34BD8FB5A7B829D3E862371D2CFE5' and algo.aes_unwrap(kek, w) == kd, 'RFC 3394 vector 4.1')
    # -- signed messages / cleartext made by GnuPG
    pubs = []
    for kf in ('rsa.1.pub.asc', 'dsa.1.pub.asc', 'ecc.1.pub.asc', 'ecc.2.pub.asc', 'mixed.1.pub.asc'):
        for tk in tkey.parse_keys(_dearmor('keys', kf).payload):
            pubs.append(tk.pub)
            pubs.extend(c.key for c in tk.subkeys)
    for tk in tkey.parse_keys(armor.dearmor(_read('pubtest.asc').decode('latin-1')).payload):
        pubs.append(tk.pub)
        pubs.extend(c.key for c in tk.subkeys)
    for fn in ('cleartext.signed.asc', 'cleartext.dashesc.signed.asc', 'cleartext.oneline.signed.asc', 'cleartext.empty.signed.asc'):
        if not os.path.exists(_td('messages', fn)):
            continue
        blk = armor.dearmor(_read('messages', fn).decode('utf-8'))
        signed = armor.cleartext_signed_octets(blk.cleartext)
        nsig = 0
        for p in split_packets(blk.payload):
            s = sigs.parse_sig(p.body)
            signer = [k for k in pubs if k.keyid == s.issuer]
            if signer and signer[0].curve not in ('bp256', 'bp384', 'bp512'):
                ok(sigs.verify(s, signer[0], signed, check_left16=True), 'cleartext signature in %s' % fn)
                nsig += 1
        ok(nsig > 0, 'a known signer for %s' % fn)
    for fn in ('message.signed.asc', 'message.signed.ecdsa.asc'):
        if not os.path.exists(_td('messages', fn)):
            continue
        sh = enc.recognise(_dearmor('messages', fn).payload)
        ok(not sh.errors and sh.literal is not None and sh.sigs, 'grammar of %s' % fn)
        for b in sh.sigs:
            s = sigs.parse_sig(b)
            signer = [k for k in pubs if k.keyid == s.issuer]
            if signer:
                ok(sigs.verify(s, signer[0], sigs.subject_document(s.type, sh.literal.data), check_left16=True), 'inline signature in %s' % fn)
    # one-pass flags as GnuPG writes them
    for fn, want in (('message.onepass.asc', [1]), ('message.two_onepass.asc', [0, 1])):
        if os.path.exists(_td('blocks', fn)):
            sh = enc.recognise(_dearmor('blocks', fn).payload)
            ok([o.last for o in sh.ops] == want, 'one-pass "last" flags in %s = %s' % (fn, [o.last for o in sh.ops]))
    # -- partial body lengths and compression fixtures
    p = split_packets(_read('packets', '11.partial.literal'))
    ok(len(p) == 1 and p[0].partial and enc.parse_literal(p[0].body) is not None, 'partial-length literal')
    for fn in ('08.bzip2.compressed', '08.deflate.compressed', '08.zlib.compressed', '08.uncompressed.compressed'):
        p = split_packets(_read('packets', fn))[0]
        ok(len(split_packets(enc.decompress(p.body))) >= 1, 'decompress %s' % fn)
    # -- S2K against GnuPG-protected keys is covered above; multi-context sanity: MD5 with a 32-octet key
    k = algo.s2k(0, 1, b'abc', 32)
    import hashlib
    ok(k == hashlib.md5(b'abc').digest() + hashlib.md5(b'\x00abc').digest(), 'simple S2K with two hash contexts')
    return n
