"""Reference peer: ASCII armor (RFC 4880 section 6) and the cleartext signature
framework (section 7).  Bit-serial CRC-24; own base64 handling of lines.
Imports nothing from pgpy."""
import base64
import binascii


class ArmorError(Exception):
    pass


def crc24(data):
    crc = 0xB704CE
    for b in bytes(data):
        crc ^= b << 16
        for _ in range(8):
            crc <<= 1
            if crc & 0x1000000:
                crc ^= 0x1864CFB
    return crc & 0xFFFFFF


def enarmor(label, payload, headers=(), width=64, eol='\n'):
    b = base64.b64encode(bytes(payload)).decode('ascii')
    lines = [b[i:i + width] for i in range(0, len(b), width)]
    out = ['-----BEGIN PGP %s-----' % label]
    for k, v in headers:
        out.append('%s: %s' % (k, v))
    out.append('')
    out.extend(lines)
    out.append('=' + base64.b64encode(crc24(payload).to_bytes(3, 'big')).decode('ascii'))
    out.append('-----END PGP %s-----' % label)
    return eol.join(out) + eol


class Block(object):
    def __init__(self):
        self.label = None
        self.headers = []
        self.payload = b''
        self.crc = None            # int or None
        self.crc_ok = None
        self.body_lines = []
        self.cleartext = None      # dash-unescaped text lines joined with '\n' (str) for signed messages
        self.cleartext_raw_lines = None
        self.hash_headers = []
        self.max_line = 0


def dearmor(text):
    """Strict-ish decoder of the first armor block in text (str).  Surrounding text is ignored."""
    if isinstance(text, (bytes, bytearray)):
        text = bytes(text).decode('latin-1')
    lines = text.replace('\r\n', '\n').split('\n')
    blk = Block()
    i = 0
    n = len(lines)
    while i < n and not (lines[i].startswith('-----BEGIN PGP ') and lines[i].rstrip().endswith('-----')):
        i += 1
    if i == n:
        raise ArmorError('no armor header line')
    label = lines[i].rstrip()[len('-----BEGIN PGP '):-5]
    i += 1
    if label == 'SIGNED MESSAGE':
        # section 7: armor headers (Hash:), empty line, dash-escaped text, then the signature block
        while i < n and lines[i].strip() != '':
            if ':' not in lines[i]:
                raise ArmorError('bad header in cleartext message')
            k, v = lines[i].split(':', 1)
            if k.strip() == 'Hash':
                blk.hash_headers.extend(x.strip() for x in v.split(','))
            i += 1
        i += 1
        raw = []
        while i < n and not lines[i].startswith('-----BEGIN PGP SIGNATURE-----'):
            raw.append(lines[i])
            i += 1
        if i == n:
            raise ArmorError('cleartext message without signature block')
        blk.cleartext_raw_lines = raw
        un = []
        for ln in raw:
            if ln.startswith('- '):
                un.append(ln[2:])
            elif ln.startswith('-'):
                raise ArmorError('line starting with a dash is not dash-escaped: %r' % ln[:20])
            else:
                un.append(ln)
        blk.cleartext = '\n'.join(un)
        label = 'SIGNATURE'
        i += 1
        blk.label = 'SIGNED MESSAGE'
    else:
        blk.label = label
    # armor headers
    while i < n and lines[i].strip() != '':
        ln = lines[i]
        if ': ' not in ln:
            # no header section at all: this is already body (tolerated by many implementations)
            break
        k, v = ln.split(': ', 1)
        blk.headers.append((k, v))
        i += 1
    if i < n and lines[i].strip() == '':
        i += 1
    body = []
    while i < n and not lines[i].startswith('=') and not lines[i].startswith('-----END PGP '):
        if lines[i].strip() != '':
            body.append(lines[i].strip())
        i += 1
    # a body line may itself start with '=' only if it is the CRC line (4 base64 chars after '=')
    if i < n and lines[i].startswith('='):
        c = lines[i].strip()[1:]
        try:
            cb = base64.b64decode(c.encode('ascii'), validate=True)
        except (binascii.Error, ValueError):
            raise ArmorError('undecodable CRC line')
        if len(cb) != 3:
            raise ArmorError('CRC line is not 24 bits')
        blk.crc = int.from_bytes(cb, 'big')
        i += 1
    if i == n or not lines[i].startswith('-----END PGP '):
        raise ArmorError('no armor tail line')
    tail = lines[i].rstrip()[len('-----END PGP '):-5]
    if tail != label:
        raise ArmorError('tail label %r does not match header label %r' % (tail, label))
    blk.body_lines = body
    blk.max_line = max([len(x) for x in body] or [0])
    try:
        blk.payload = base64.b64decode(''.join(body).encode('ascii'), validate=True)
    except (binascii.Error, ValueError) as e:
        raise ArmorError('undecodable radix-64 body: %s' % e)
    if blk.crc is not None:
        blk.crc_ok = crc24(blk.payload) == blk.crc
    return blk


# --- cleartext signature framework -------------------------------------------------
def dash_escape(text):
    out = []
    for ln in text.split('\n'):
        if ln.startswith('-') or ln.startswith('From '):
            out.append('- ' + ln)
        else:
            out.append(ln)
    return '\n'.join(out)


def cleartext_signed_octets(text, encoding='utf-8'):
    """Section 7.1: the octets that a cleartext signature (type 0x01) covers: line endings
    canonicalised to CR LF, trailing whitespace (space, tab) removed from every line, the line
    ending before the signature armor not included."""
    if isinstance(text, (bytes, bytearray)):
        text = bytes(text).decode(encoding)
    lines = text.replace('\r\n', '\n').split('\n')
    lines = [ln.rstrip(' \t') for ln in lines]
    return '\r\n'.join(lines).encode(encoding)


def make_cleartext(text, sig_packets, hash_names, eol='\n', headers=()):
    out = ['-----BEGIN PGP SIGNED MESSAGE-----']
    if hash_names:
        out.append('Hash: ' + ','.join(hash_names))
    out.append('')
    out.append(dash_escape(text).replace('\n', eol))
    s = eol.join(out) + eol
    return s + enarmor('SIGNATURE', sig_packets, headers, eol=eol)
