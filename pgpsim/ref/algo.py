"""Reference peer: algorithm tables, S2K (RFC 4880 3.7), OpenPGP CFB (13.9),
EMSA-PKCS1-v1_5 (13.1.3 / RFC 3447), RFC 3394 key wrap, RFC 6637 KDF.
Built on hashlib and single-block ECB from `cryptography`; imports nothing from pgpy."""
import hashlib
import warnings

with warnings.catch_warnings():
    warnings.simplefilter('ignore')
    from cryptography.hazmat.primitives.ciphers import Cipher, algorithms, modes
    try:
        from cryptography.hazmat.decrepit.ciphers import algorithms as _old
    except ImportError:      # pragma: no cover
        _old = algorithms


class AlgoError(Exception):
    pass


HASHES = {1: 'md5', 2: 'sha1', 3: 'ripemd160', 8: 'sha256', 9: 'sha384', 10: 'sha512', 11: 'sha224'}
HASH_NAMES = {1: 'MD5', 2: 'SHA1', 3: 'RIPEMD160', 8: 'SHA256', 9: 'SHA384', 10: 'SHA512', 11: 'SHA224'}


def hasher(hid):
    if hid not in HASHES:
        raise AlgoError('unknown hash algorithm %r' % hid)
    return hashlib.new(HASHES[hid])


def digest(hid, data):
    h = hasher(hid)
    h.update(data)
    return h.digest()


# ASN.1 DER DigestInfo prefixes, RFC 4880 5.2.2
DIGESTINFO = {
    1: bytes.fromhex('3020300c06082a864886f70d020505000410'),
    2: bytes.fromhex('3021300906052b0e03021a05000414'),
    3: bytes.fromhex('3021300906052b2403020105000414'),
    8: bytes.fromhex('3031300d060960864801650304020105000420'),
    9: bytes.fromhex('3041300d060960864801650304020205000430'),
    10: bytes.fromhex('3051300d060960864801650304020305000440'),
    11: bytes.fromhex('302d300d06096086480165030402040500041c'),
}


def emsa_pkcs1_v15(hid, dig, k):
    t = DIGESTINFO[hid] + dig
    if k < len(t) + 11:
        raise AlgoError('modulus too short')
    return b'\x00\x01' + b'\xff' * (k - len(t) - 3) + b'\x00' + t


# symmetric ciphers: id -> (constructor, key octets, block octets)
CIPHERS = {
    1: (getattr(_old, 'IDEA', None), 16, 8),
    2: (getattr(_old, 'TripleDES', None), 24, 8),
    3: (getattr(_old, 'CAST5', None), 16, 8),
    4: (getattr(_old, 'Blowfish', None), 16, 8),
    7: (algorithms.AES, 16, 16),
    8: (algorithms.AES, 24, 16),
    9: (algorithms.AES, 32, 16),
    11: (getattr(_old, 'Camellia', None), 16, 16),
    12: (getattr(_old, 'Camellia', None), 24, 16),
    13: (getattr(_old, 'Camellia', None), 32, 16),
}
CIPHER_NAMES = {1: 'IDEA', 2: 'TripleDES', 3: 'CAST5', 4: 'Blowfish', 7: 'AES128', 8: 'AES192', 9: 'AES256',
                11: 'Camellia128', 12: 'Camellia192', 13: 'Camellia256'}


def key_size(cid):
    if cid not in CIPHERS:
        raise AlgoError('unknown cipher %r' % cid)
    return CIPHERS[cid][1]


def block_size(cid):
    if cid not in CIPHERS:
        raise AlgoError('unknown cipher %r' % cid)
    return CIPHERS[cid][2]


def _ecb(cid, key):
    ctor, ks, bs = CIPHERS[cid]
    if ctor is None:
        raise AlgoError('cipher %d unavailable' % cid)
    if len(key) != ks:
        raise AlgoError('key length %d, cipher %s needs %d' % (len(key), CIPHER_NAMES[cid], ks))
    with warnings.catch_warnings():
        warnings.simplefilter('ignore')
        return Cipher(ctor(bytes(key)), modes.ECB()).encryptor()


def _xor(a, b):
    return bytes(x ^ y for x, y in zip(a, b))


def cfb_encrypt(cid, key, data, iv=None):
    """Full-block CFB built by hand on the block cipher's forward function."""
    bs = block_size(cid)
    enc = _ecb(cid, key)
    fr = bytes(iv) if iv is not None else bytes(bs)
    if len(fr) != bs:
        raise AlgoError('iv length')
    out = bytearray()
    data = bytes(data)
    for i in range(0, len(data), bs):
        ks = enc.update(fr)
        c = _xor(data[i:i + bs], ks)
        out += c
        fr = c if len(c) == bs else fr
    return bytes(out)


def cfb_decrypt(cid, key, data, iv=None):
    bs = block_size(cid)
    enc = _ecb(cid, key)
    fr0 = bytes(iv) if iv is not None else bytes(bs)
    if len(fr0) != bs:
        raise AlgoError('iv length')
    data = bytes(data)
    if not data:
        return b''
    # P_i = C_i xor E(C_{i-1}): one ECB call over the shifted ciphertext
    nblocks = (len(data) + bs - 1) // bs
    feed = fr0 + data[:(nblocks - 1) * bs]
    ks = enc.update(feed)
    return _xor(data, ks[:len(data)])


# --- S2K -----------------------------------------------------------------
def s2k_count(coded):
    return (16 + (coded & 15)) << ((coded >> 4) + 6)


def s2k(spec_type, hid, passphrase, keylen, salt=b'', coded_count=0):
    """RFC 4880 3.7.1.  spec_type 0 simple, 1 salted, 3 iterated+salted."""
    if isinstance(passphrase, str):
        passphrase = passphrase.encode('utf-8')
    passphrase = bytes(passphrase)
    if spec_type == 0:
        salt = b''
    elif spec_type in (1, 3):
        salt = bytes(salt)
        if len(salt) != 8:
            raise AlgoError('salt must be 8 octets')
    else:
        raise AlgoError('unsupported S2K type %r' % spec_type)
    unit = salt + passphrase
    total = len(unit)
    if spec_type == 3:
        total = max(s2k_count(coded_count), len(unit))
    out = b''
    n = 0
    while len(out) < keylen:
        h = hasher(hid)
        h.update(b'\x00' * n)
        if unit:
            full, rest = divmod(total, len(unit))
            # feed in bounded pieces to keep memory flat
            piece = unit * max(1, min(full, 65536 // max(1, len(unit))))
            per = len(piece) // len(unit)
            left = full
            while left >= per and per > 0:
                h.update(piece)
                left -= per
            if left:
                h.update(unit * left)
            h.update(unit[:rest])
        out += h.digest()
        n += 1
    return out[:keylen]


# --- RFC 3394 AES key wrap -------------------------------------------------
def _aes_ecb(key, decrypt=False):
    c = Cipher(algorithms.AES(bytes(key)), modes.ECB())
    return c.decryptor() if decrypt else c.encryptor()


def aes_wrap(kek, data):
    if len(data) % 8 or len(data) < 16:
        raise AlgoError('wrap input must be a multiple of 8, at least 16')
    n = len(data) // 8
    a = b'\xa6' * 8
    r = [data[i * 8:(i + 1) * 8] for i in range(n)]
    enc = _aes_ecb(kek)
    for j in range(6):
        for i in range(n):
            b = enc.update(a + r[i])
            t = n * j + i + 1
            a = (int.from_bytes(b[:8], 'big') ^ t).to_bytes(8, 'big')
            r[i] = b[8:]
    return a + b''.join(r)


def aes_unwrap(kek, data):
    if len(data) % 8 or len(data) < 24:
        raise AlgoError('unwrap input length')
    n = len(data) // 8 - 1
    a = data[:8]
    r = [data[(i + 1) * 8:(i + 2) * 8] for i in range(n)]
    dec = _aes_ecb(kek, True)
    for j in range(5, -1, -1):
        for i in range(n - 1, -1, -1):
            t = n * j + i + 1
            b = dec.update((int.from_bytes(a, 'big') ^ t).to_bytes(8, 'big') + r[i])
            a = b[:8]
            r[i] = b[8:]
    if a != b'\xa6' * 8:
        raise AlgoError('key unwrap integrity check failed')
    return b''.join(r)


# --- RFC 6637 -----------------------------------------------------------------
CURVES = {
    # oid octets (without the length octet) -> (name, field octets)
    bytes.fromhex('2a8648ce3d030107'): ('p256', 32),
    bytes.fromhex('2b81040022'): ('p384', 48),
    bytes.fromhex('2b81040023'): ('p521', 66),
    bytes.fromhex('2b8104000a'): ('secp256k1', 32),
    bytes.fromhex('2b06010401da470f01'): ('ed25519', 32),
    bytes.fromhex('2b060104019755010501'): ('cv25519', 32),
    bytes.fromhex('2b2403030208010107'): ('bp256', 32),
    bytes.fromhex('2b240303020801010b'): ('bp384', 48),
    bytes.fromhex('2b240303020801010d'): ('bp512', 64),
}
CURVE_OIDS = {v[0]: k for k, v in CURVES.items()}


def ecdh_kdf(hid, zz, keylen, oid, kdf_hash, kek_alg, fingerprint20):
    """RFC 6637 section 7: one-step KDF (SP800-56A), counter 00000001."""
    param = bytes([len(oid)]) + oid + bytes([18]) + bytes([3, 1, kdf_hash, kek_alg]) + b'Anonymous Sender    ' + fingerprint20
    return digest(hid, b'\x00\x00\x00\x01' + zz + param)[:keylen]


def pkcs5_pad(m, total=None):
    """RFC 6637 section 8: padded to 8-octet granularity; a sender MAY instead pad every session key block to the same
    40 octets (21 / 13 / 5 padding octets for 128 / 192 / 256-bit keys) so that its length hides the cipher"""
    n = 8 - (len(m) % 8)
    if total is not None and total > len(m) and (total - len(m)) < 256 and total % 8 == 0:
        n = total - len(m)
    return m + bytes([n]) * n


def pkcs5_unpad(m):
    if not m:
        raise AlgoError('empty')
    n = m[-1]
    if n < 1 or n > len(m) or m[-n:] != bytes([n]) * n:
        raise AlgoError('bad padding')
    return m[:-n]


EC_ORDERS = {
    'p256': 0xFFFFFFFF00000000FFFFFFFFFFFFFFFFBCE6FAADA7179E84F3B9CAC2FC632551,
    'p384': 0xFFFFFFFFFFFFFFFFFFFFFFFFFFFFFFFFFFFFFFFFFFFFFFFFC7634D81F4372DDF581A0DB248B0A77AECEC196ACCC52973,
    'p521': int('01' + 'F' * 65 + 'A' + '51868783BF2F966B7FCC0148F709A5D03BB5C9B8899C47AEBB6FB71E91386409', 16),
    'secp256k1': 0xFFFFFFFFFFFFFFFFFFFFFFFFFFFFFFFEBAAEDCE6AF48A03BBFD25E8CD0364141,
}
