"""Reference peer: version 4 signatures (RFC 4880 5.2.3, 5.2.4).  Hash input per
signature type, trailer, left-16, parse/build, verify/sign.  Imports nothing from pgpy."""
import re

from . import algo, keys
from .wire import WireError, encode_subpacket, mpi, read_mpi, split_subpackets

T_BINARY, T_TEXT, T_STANDALONE = 0x00, 0x01, 0x02
T_CERT = (0x10, 0x11, 0x12, 0x13)
T_ATTEST = 0x16
T_SUBKEY_BIND, T_PRIMARY_BIND, T_DIRECT = 0x18, 0x19, 0x1F
T_KEY_REV, T_SUBKEY_REV, T_CERT_REV = 0x20, 0x28, 0x30
T_TIMESTAMP, T_THIRD = 0x40, 0x50

SP_CREATED, SP_SIGEXP, SP_EXPORTABLE, SP_TRUST, SP_REGEX, SP_REVOCABLE = 2, 3, 4, 5, 6, 7
SP_KEYEXP, SP_PREF_SYM, SP_REVKEY, SP_ISSUER, SP_NOTATION, SP_PREF_HASH, SP_PREF_COMP = 9, 11, 12, 16, 20, 21, 22
SP_KS_PREFS, SP_PREF_KS, SP_PRIMARY, SP_POLICY, SP_KEYFLAGS, SP_SIGNER_UID, SP_REASON = 23, 24, 25, 26, 27, 28, 29
SP_FEATURES, SP_TARGET, SP_EMBEDDED, SP_ISSUER_FPR, SP_INTENDED, SP_ATTESTED = 30, 31, 32, 33, 35, 37


class Sig(object):
    def __init__(self):
        self.version = 4
        self.type = 0
        self.pkalg = 0
        self.halg = 0
        self.hashed = b''        # hashed subpacket area (without the 2-octet count)
        self.unhashed = b''
        self.left16 = b'\x00\x00'
        self.mpis = []
        self.mpi_raw = b''
        self.body = b''

    def hashed_subpackets(self):
        return split_subpackets(self.hashed)

    def unhashed_subpackets(self):
        return split_subpackets(self.unhashed)

    def sub(self, type_, hashed_only=False):
        out = [s for s in self.hashed_subpackets() if s.type == type_]
        if not hashed_only:
            out += [s for s in self.unhashed_subpackets() if s.type == type_]
        return out

    @property
    def created(self):
        s = self.sub(SP_CREATED, True)
        return int.from_bytes(s[-1].body, 'big') if s else None

    @property
    def issuer(self):
        s = self.sub(SP_ISSUER)
        return s[-1].body if s else None

    @property
    def issuer_fpr(self):
        s = self.sub(SP_ISSUER_FPR)
        return s[-1].body[1:] if s else None

    def header_octets(self):
        """version .. end of hashed area: what RFC 4880 5.2.4 says is hashed from the packet."""
        return bytes([self.version, self.type, self.pkalg, self.halg]) + len(self.hashed).to_bytes(2, 'big') + self.hashed

    def trailer(self):
        h = self.header_octets()
        return h + b'\x04\xff' + len(h).to_bytes(4, 'big')

    def exportable(self):
        s = self.sub(SP_EXPORTABLE, True)
        return not s or s[-1].body != b'\x00'


def parse_sig(body):
    body = bytes(body)
    s = Sig()
    s.body = body
    if len(body) < 10:
        raise WireError('signature packet too short')
    s.version = body[0]
    if s.version != 4:
        raise WireError('only v4 signatures are handled by the reference peer (got v%d)' % s.version)
    s.type, s.pkalg, s.halg = body[1], body[2], body[3]
    hl = int.from_bytes(body[4:6], 'big')
    off = 6
    if off + hl + 2 > len(body):
        raise WireError('hashed area runs past the packet')
    s.hashed = body[off:off + hl]
    off += hl
    ul = int.from_bytes(body[off:off + 2], 'big')
    off += 2
    if off + ul + 2 > len(body):
        raise WireError('unhashed area runs past the packet')
    s.unhashed = body[off:off + ul]
    off += ul
    s.left16 = body[off:off + 2]
    off += 2
    s.mpi_raw = body[off:]
    n = {keys.RSA_ES: 1, keys.RSA_S: 1, keys.RSA_E: 1, keys.DSA: 2, keys.ECDSA: 2, keys.EDDSA: 2}.get(s.pkalg)
    if n is None:
        raise WireError('unknown signature algorithm %d' % s.pkalg)
    for _ in range(n):
        v, off, _b = read_mpi(body, off)
        s.mpis.append(v)
    if off != len(body):
        raise WireError('trailing octets after signature MPIs')
    split_subpackets(s.hashed)
    split_subpackets(s.unhashed)
    return s


def build_sig_body(type_, pkalg, halg, hashed, unhashed, left16, mpis):
    out = bytearray([4, type_, pkalg, halg])
    out += len(hashed).to_bytes(2, 'big') + hashed
    out += len(unhashed).to_bytes(2, 'big') + unhashed
    out += left16
    for v in mpis:
        out += mpi(v)
    return bytes(out)


# --- subject octets ---------------------------------------------------------------
def canon_text(data):
    """5.2.4 / 5.2.1: text documents are hashed with line endings converted to CR LF."""
    # a lone CR is left alone: the RFC does not say, implementations differ, and the
    # generators never put one into a text that two implementations must agree on
    return re.sub(br'\r?\n', b'\r\n', bytes(data))


def subject_document(type_, data):
    if type_ == T_TEXT:
        return canon_text(data)
    return bytes(data)


def subject_key(pub):
    return pub.hash_prefix()


def subject_uid(pub, uid_octets):
    return pub.hash_prefix() + b'\xb4' + len(uid_octets).to_bytes(4, 'big') + bytes(uid_octets)


def subject_uattr(pub, ua_body):
    return pub.hash_prefix() + b'\xd1' + len(ua_body).to_bytes(4, 'big') + bytes(ua_body)


def subject_subkey(primary, sub):
    return primary.hash_prefix() + sub.hash_prefix()


def hash_input(sig, subject_octets):
    return bytes(subject_octets) + sig.trailer()


def digest_for(sig, subject_octets):
    return algo.digest(sig.halg, hash_input(sig, subject_octets))


def verify(sig, pub, subject_octets, check_left16=False):
    """True iff sig is a valid v4 signature by pub over subject_octets (RFC hash input)."""
    if pub.alg != sig.pkalg and not (pub.alg in (keys.RSA_ES, keys.RSA_S) and sig.pkalg in (keys.RSA_ES, keys.RSA_S)):
        return False
    if sig.halg not in algo.HASHES:
        return False
    dig = digest_for(sig, subject_octets)
    if check_left16 and dig[:2] != sig.left16:
        return False
    return keys.verify_digest(pub, sig.halg, dig, sig.mpis)


def left16_ok(sig, subject_octets):
    return digest_for(sig, subject_octets)[:2] == sig.left16


def sign(type_, pub, secret, halg, hashed, unhashed, subject_octets):
    """Build a complete signature packet body."""
    s = Sig()
    s.type, s.pkalg, s.halg, s.hashed, s.unhashed = type_, pub.alg, halg, bytes(hashed), bytes(unhashed)
    dig = digest_for(s, subject_octets)
    mp = keys.sign_digest(pub, secret, halg, dig)
    return build_sig_body(type_, pub.alg, halg, s.hashed, s.unhashed, dig[:2], mp)


# --- subpacket builders ---------------------------------------------------------
def sp_created(t, **kw):
    return encode_subpacket(SP_CREATED, int(t).to_bytes(4, 'big'), **kw)


def sp_issuer(keyid8, **kw):
    return encode_subpacket(SP_ISSUER, keyid8, **kw)


def sp_issuer_fpr(fpr20, **kw):
    return encode_subpacket(SP_ISSUER_FPR, b'\x04' + fpr20, **kw)


def sp_keyflags(b, **kw):
    return encode_subpacket(SP_KEYFLAGS, bytes(b) if not isinstance(b, int) else bytes([b]), **kw)


def sp_bool(type_, v, **kw):
    return encode_subpacket(type_, bytes([v]), **kw)


def sp_u32(type_, v, **kw):
    return encode_subpacket(type_, int(v).to_bytes(4, 'big'), **kw)


def sp_notation(name, value, human=True, **kw):
    name = name.encode('utf-8') if isinstance(name, str) else bytes(name)
    value = value.encode('utf-8') if isinstance(value, str) else bytes(value)
    return encode_subpacket(SP_NOTATION, bytes([0x80 if human else 0, 0, 0, 0]) + len(name).to_bytes(2, 'big')
                            + len(value).to_bytes(2, 'big') + name + value, **kw)
