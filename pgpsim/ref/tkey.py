"""Reference peer: transferable keys (RFC 4880 11.1 / 11.2): structural parse of a
packet sequence into primary key, direct signatures, user ids / attributes with
their signatures, subkeys with theirs; verification of every self-signature."""
from . import keys, sigs
from .wire import WireError, split_packets

TAG_SIG, TAG_SECKEY, TAG_PUBKEY, TAG_SECSUB, TAG_TRUST, TAG_UID, TAG_PUBSUB, TAG_UATTR, TAG_MARKER = 2, 5, 6, 7, 12, 13, 14, 17, 10


class Component(object):
    def __init__(self, kind, pkt):
        self.kind = kind          # 'uid', 'uattr', 'subkey'
        self.pkt = pkt
        self.sigs = []            # list of signature packet bodies (bytes)
        self.key = None           # PubKey for subkeys
        self.sec = None


class TKey(object):
    def __init__(self):
        self.primary_pkt = None
        self.pub = None
        self.sec = None
        self.secret = False
        self.direct = []          # signature bodies on the primary key
        self.uids = []            # Components
        self.subkeys = []         # Components
        self.tags = []

    @property
    def fingerprint(self):
        return self.pub.fingerprint

    def components(self):
        return self.uids + self.subkeys

    def all_sig_bodies(self):
        out = list(self.direct)
        for c in self.components():
            out.extend(c.sigs)
        return out


def parse_keys(data, allow_trust=True):
    """Split a blob into transferable keys.  Raises WireError on a sequence that is not
    derivable from 11.1/11.2."""
    out = []
    cur = None
    last = None
    for p in split_packets(data):
        if p.tag == TAG_MARKER or (p.tag == TAG_TRUST and allow_trust):
            continue
        if p.tag in (TAG_PUBKEY, TAG_SECKEY):
            cur = TKey()
            cur.primary_pkt = p
            cur.secret = p.tag == TAG_SECKEY
            if cur.secret:
                cur.sec = keys.parse_sec(p.body)
                cur.pub = cur.sec.pub
            else:
                cur.pub = keys.parse_pub(p.body)
                if cur.pub.publen != len(p.body):
                    raise WireError('trailing octets in public key packet')
            out.append(cur)
            last = cur
        elif cur is None:
            raise WireError('packet tag %d before any primary key' % p.tag)
        elif p.tag in (TAG_UID, TAG_UATTR):
            if cur.subkeys:
                raise WireError('user id after a subkey')
            c = Component('uid' if p.tag == TAG_UID else 'uattr', p)
            cur.uids.append(c)
            last = c
        elif p.tag in (TAG_PUBSUB, TAG_SECSUB):
            if (p.tag == TAG_SECSUB) != cur.secret:
                raise WireError('mixed public and secret key packets in one transferable key')
            c = Component('subkey', p)
            if cur.secret:
                c.sec = keys.parse_sec(p.body)
                c.key = c.sec.pub
            else:
                c.key = keys.parse_pub(p.body)
                if c.key.publen != len(p.body):
                    raise WireError('trailing octets in public subkey packet')
            cur.subkeys.append(c)
            last = c
        elif p.tag == TAG_SIG:
            if last is cur:
                cur.direct.append(p.body)
            else:
                last.sigs.append(p.body)
        else:
            raise WireError('packet tag %d inside a transferable key' % p.tag)
        if cur is not None:
            cur.tags.append(p.tag)
    return out


def subject_for(tk, comp, sig):
    """RFC hash-input subject octets for a signature found on component comp (None = primary)."""
    t = sig.type
    if comp is None:
        return sigs.subject_key(tk.pub)
    if comp.kind == 'uid':
        return sigs.subject_uid(tk.pub, comp.pkt.body)
    if comp.kind == 'uattr':
        return sigs.subject_uattr(tk.pub, comp.pkt.body)
    return sigs.subject_subkey(tk.pub, comp.key)


def check_self_sigs(tk, others=(), check_left16=False):
    """Verify every signature whose issuer is the primary key (or, for embedded 0x19, the
    subkey).  Returns list of (component index or None, sig, ok, note)."""
    res = []
    kid = tk.pub.keyid

    def check(comp, body):
        try:
            s = sigs.parse_sig(body)
        except WireError as e:
            res.append((comp, None, False, 'unparsable: %s' % e))
            return
        iss = s.issuer or (s.issuer_fpr[-8:] if s.issuer_fpr else None)
        if iss != kid:
            return
        subj = subject_for(tk, comp, s)
        ok = sigs.verify(s, tk.pub, subj, check_left16=check_left16)
        res.append((comp, s, ok, 'type 0x%02x' % s.type))
        if s.type == sigs.T_SUBKEY_BIND and comp is not None and comp.kind == 'subkey':
            for e in s.sub(sigs.SP_EMBEDDED):
                try:
                    es = sigs.parse_sig(e.body)
                except WireError as ex:
                    res.append((comp, None, False, 'embedded unparsable: %s' % ex))
                    continue
                res.append((comp, es, es.type == sigs.T_PRIMARY_BIND and sigs.verify(es, comp.key, subj, check_left16=check_left16),
                            'embedded 0x%02x' % es.type))

    for b in tk.direct:
        check(None, b)
    for c in tk.components():
        for b in c.sigs:
            check(c, b)
    return res


def public_form(tk_bytes):
    """The public transferable key that corresponds to a secret one, built by the reference
    peer: secret key packets replaced by public ones (same framing style: new format)."""
    from .wire import encode_packet
    out = bytearray()
    for p in split_packets(tk_bytes):
        if p.tag == TAG_SECKEY:
            out += encode_packet(TAG_PUBKEY, keys.parse_pub(p.body).body)
        elif p.tag == TAG_SECSUB:
            out += encode_packet(TAG_PUBSUB, keys.parse_pub(p.body).body)
        elif p.tag == TAG_TRUST:
            continue
        else:
            out += encode_packet(p.tag, p.body)
    return bytes(out)
