"""Reference peer: packet framing (RFC 4880 section 4), MPIs (3.2), signature
subpacket areas (5.2.3.1).  Imports nothing from pgpy."""


class WireError(Exception):
    pass


class Pkt(object):
    __slots__ = ('tag', 'body', 'new', 'raw', 'hdr', 'partial', 'indeterminate', 'lenenc')

    def __init__(self, tag, body, new, raw, hdr, partial=False, indeterminate=False, lenenc=None):
        self.tag = tag
        self.body = bytes(body)
        self.new = new
        self.raw = bytes(raw)
        self.hdr = hdr            # header length in octets (first header only when partial)
        self.partial = partial
        self.indeterminate = indeterminate
        self.lenenc = lenenc      # 1, 2, 4, 5 octets of length field or 0

    def __repr__(self):
        return '<Pkt tag=%d len=%d %s>' % (self.tag, len(self.body), 'new' if self.new else 'old')


def _new_len(data, off):
    """returns (length, size_of_field, is_partial)"""
    if off >= len(data):
        raise WireError('truncated length')
    o = data[off]
    if o < 192:
        return o, 1, False
    if o < 224:
        if off + 1 >= len(data):
            raise WireError('truncated two-octet length')
        return ((o - 192) << 8) + data[off + 1] + 192, 2, False
    if o < 255:
        return 1 << (o & 0x1F), 1, True
    if off + 4 >= len(data):
        raise WireError('truncated five-octet length')
    return int.from_bytes(data[off + 1:off + 5], 'big'), 5, False


def read_packet(data, off=0):
    """Parse one packet at data[off:].  Returns (Pkt, next_offset)."""
    if off >= len(data):
        raise WireError('no data')
    t = data[off]
    if not t & 0x80:
        raise WireError('bit 7 of the packet tag octet is clear at offset %d' % off)
    start = off
    if t & 0x40:
        tag = t & 0x3F
        off += 1
        ln, sz, part = _new_len(data, off)
        off += sz
        hdr = 1 + sz
        if not part:
            if off + ln > len(data):
                raise WireError('packet body runs past the end of data (tag %d, need %d, have %d)' % (tag, ln, len(data) - off))
            return Pkt(tag, data[off:off + ln], True, data[start:off + ln], hdr, lenenc=sz), off + ln
        body = bytearray()
        while True:
            if off + ln > len(data):
                raise WireError('partial body chunk runs past the end of data')
            body += data[off:off + ln]
            off += ln
            if not part:
                break
            ln, sz, part = _new_len(data, off)
            off += sz
        return Pkt(tag, body, True, data[start:off], hdr, partial=True, lenenc=1), off
    tag = (t & 0x3C) >> 2
    lt = t & 3
    off += 1
    if lt == 3:
        return Pkt(tag, data[off:], False, data[start:], 1, indeterminate=True, lenenc=0), len(data)
    sz = (1, 2, 4)[lt]
    if off + sz > len(data):
        raise WireError('truncated old-format length')
    ln = int.from_bytes(data[off:off + sz], 'big')
    off += sz
    if off + ln > len(data):
        raise WireError('packet body runs past the end of data (old tag %d, need %d, have %d)' % (tag, ln, len(data) - off))
    return Pkt(tag, data[off:off + ln], False, data[start:off + ln], 1 + sz, lenenc=sz), off + ln


def split_packets(data):
    data = bytes(data)
    out = []
    off = 0
    while off < len(data):
        p, off = read_packet(data, off)
        out.append(p)
    return out


def new_length(n, force=None):
    if force == 5 or (force is None and n >= 8384):
        return b'\xff' + n.to_bytes(4, 'big')
    if force == 2 or (force is None and n >= 192):
        if not 192 <= n < 8384:
            raise WireError('length %d not encodable in two octets' % n)
        v = n - 192
        return bytes([(v >> 8) + 192, v & 0xFF])
    if n >= 192:
        raise WireError('length %d not encodable in one octet' % n)
    return bytes([n])


def encode_packet(tag, body, fmt='new', lenenc=None, chunks=None, final_lenenc=None):
    """fmt 'new': lenenc in (None, 1, 2, 5); chunks = list of powers of two for partial body
    lengths (first >= 512), remainder goes in a final definite length.
    fmt 'old': lenenc in (None, 1, 2, 4, 0) with 0 = indeterminate."""
    body = bytes(body)
    if fmt == 'new':
        if tag > 63:
            raise WireError('tag')
        out = bytearray([0xC0 | tag])
        if chunks:
            off = 0
            for c in chunks:
                e = c.bit_length() - 1
                if (1 << e) != c or e > 30 or off + c > len(body):
                    raise WireError('bad chunk')
                out.append(224 + e)
                out += body[off:off + c]
                off += c
            out += new_length(len(body) - off, final_lenenc)
            out += body[off:]
            return bytes(out)
        out += new_length(len(body), lenenc)
        return bytes(out) + body
    if tag > 15:
        raise WireError('tag %d has no old-format encoding' % tag)
    n = len(body)
    if lenenc is None:
        lenenc = 1 if n < 256 else 2 if n < 65536 else 4
    if lenenc == 0:
        return bytes([0x80 | (tag << 2) | 3]) + body
    lt = {1: 0, 2: 1, 4: 2}[lenenc]
    if n >= 1 << (8 * lenenc):
        raise WireError('length does not fit')
    return bytes([0x80 | (tag << 2) | lt]) + n.to_bytes(lenenc, 'big') + body


def reframe(pkt, fmt, lenenc=None, chunks=None):
    return encode_packet(pkt.tag, pkt.body, fmt, lenenc, chunks)


# --- MPIs ------------------------------------------------------------------
def read_mpi(data, off):
    if off + 2 > len(data):
        raise WireError('truncated MPI header')
    bits = int.from_bytes(data[off:off + 2], 'big')
    n = (bits + 7) // 8
    if off + 2 + n > len(data):
        raise WireError('truncated MPI')
    return int.from_bytes(data[off + 2:off + 2 + n], 'big'), off + 2 + n, bits


def read_mpi_raw(data, off):
    """returns (octets of the MPI value, next offset)"""
    if off + 2 > len(data):
        raise WireError('truncated MPI header')
    bits = int.from_bytes(data[off:off + 2], 'big')
    n = (bits + 7) // 8
    if off + 2 + n > len(data):
        raise WireError('truncated MPI')
    return data[off + 2:off + 2 + n], off + 2 + n


def mpi(v):
    if isinstance(v, (bytes, bytearray)):
        # octet string as MPI (points, native scalars): bit count of the value
        i = int.from_bytes(v, 'big')
        stripped = bytes(v).lstrip(b'\x00')
        return i.bit_length().to_bytes(2, 'big') + stripped
    bits = v.bit_length()
    return bits.to_bytes(2, 'big') + v.to_bytes((bits + 7) // 8, 'big')


# --- signature subpackets ----------------------------------------------------
class SubPkt(object):
    __slots__ = ('type', 'critical', 'body', 'raw', 'lenenc', 'off')

    def __init__(self, type_, critical, body, raw, lenenc, off=0):
        self.type = type_
        self.critical = critical
        self.body = bytes(body)
        self.raw = bytes(raw)
        self.lenenc = lenenc
        self.off = off          # offset of this subpacket inside its area

    def __repr__(self):
        return '<SubPkt %d%s %s>' % (self.type, '!' if self.critical else '', self.body.hex())


def split_subpackets(area):
    area = bytes(area)
    out = []
    off = 0
    while off < len(area):
        start = off
        o = area[off]
        if o < 192:
            ln, sz = o, 1
        elif o < 255:
            if off + 1 >= len(area):
                raise WireError('truncated subpacket length')
            ln, sz = ((o - 192) << 8) + area[off + 1] + 192, 2
        else:
            if off + 4 >= len(area):
                raise WireError('truncated subpacket length')
            ln, sz = int.from_bytes(area[off + 1:off + 5], 'big'), 5
        off += sz
        if ln < 1 or off + ln > len(area):
            raise WireError('subpacket runs past its area')
        t = area[off]
        out.append(SubPkt(t & 0x7F, bool(t & 0x80), area[off + 1:off + ln], area[start:off + ln], sz, start))
        off += ln
    return out


def encode_subpacket(type_, body, critical=False, lenenc=None):
    body = bytes(body)
    n = len(body) + 1
    if lenenc == 5 or (lenenc is None and n >= 16320):
        ln = b'\xff' + n.to_bytes(4, 'big')
    elif lenenc == 2 or (lenenc is None and n >= 192):
        if n < 192:
            raise WireError('two-octet subpacket lengths start at 192')
        v = n - 192
        ln = bytes([(v >> 8) + 192, v & 0xFF])
    else:
        if n >= 192:
            raise WireError('too long for one octet')
        ln = bytes([n])
    return ln + bytes([type_ | (0x80 if critical else 0)]) + body


def max_declared_subpacket_length(area):
    """Tolerant walk over a (possibly corrupted) subpacket area: the largest length any
    subpacket header declares, whether or not it fits."""
    area = bytes(area)
    off = 0
    worst = 0
    while off < len(area):
        o = area[off]
        if o < 192:
            ln, sz = o, 1
        elif o < 255:
            ln, sz = ((o - 192) << 8) + (area[off + 1] if off + 1 < len(area) else 0) + 192, 2
        else:
            ln, sz = int.from_bytes(area[off + 1:off + 5], 'big'), 5
        worst = max(worst, ln)
        off += sz + max(ln, 1)
    return worst
