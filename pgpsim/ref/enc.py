"""Reference peer: encryption (RFC 4880 5.1, 5.3, 5.7, 5.13, 13.9; RFC 6637 8) and
message composition (5.4, 5.6, 5.9, 11.3).  Imports nothing from pgpy."""
import bz2
import hashlib
import zlib

from cryptography.hazmat.primitives import serialization
from cryptography.hazmat.primitives.asymmetric import ec, x25519

from . import algo, keys
from .wire import WireError, encode_packet, mpi, read_mpi, read_mpi_raw, split_packets

TAG_PKESK, TAG_SIG, TAG_SKESK, TAG_OPS, TAG_SECKEY, TAG_PUBKEY, TAG_SECSUB, TAG_COMP = 1, 2, 3, 4, 5, 6, 7, 8
TAG_SED, TAG_MARKER, TAG_LIT, TAG_TRUST, TAG_UID, TAG_PUBSUB, TAG_UATTR, TAG_SEIPD, TAG_MDC = 9, 10, 11, 12, 13, 14, 17, 18, 19


class DecryptError(Exception):
    pass


# --- SEIPD -----------------------------------------------------------------------
def seipd_encrypt(cid, key, plaintext, prefix_random):
    bs = algo.block_size(cid)
    if len(prefix_random) != bs:
        raise WireError('prefix must be one block')
    pre = bytes(prefix_random) + bytes(prefix_random[-2:])
    body = pre + bytes(plaintext) + b'\xd3\x14'
    mdc = hashlib.sha1(body).digest()
    return b'\x01' + algo.cfb_encrypt(cid, key, body + mdc)


def seipd_decrypt(cid, key, body):
    """body: packet body incl. version octet.  Returns (plaintext packets octets, prefix)."""
    if not body or body[0] != 1:
        raise DecryptError('SEIPD version is not 1')
    bs = algo.block_size(cid)
    pt = algo.cfb_decrypt(cid, key, body[1:])
    if len(pt) < bs + 2 + 22:
        raise DecryptError('too short')
    if pt[bs - 2:bs] != pt[bs:bs + 2]:
        raise DecryptError('prefix repeat check failed')
    if pt[-22:-20] != b'\xd3\x14':
        raise DecryptError('no MDC packet at the end')
    if hashlib.sha1(pt[:-20]).digest() != pt[-20:]:
        raise DecryptError('MDC mismatch')
    return pt[bs + 2:-22], pt[:bs]


def sed_encrypt(cid, key, plaintext, prefix_random):
    """Tag 9 with the resynchronisation step of 13.9."""
    bs = algo.block_size(cid)
    pre = bytes(prefix_random) + bytes(prefix_random[-2:])
    c1 = algo.cfb_encrypt(cid, key, pre)
    c2 = algo.cfb_encrypt(cid, key, plaintext, iv=c1[2:bs + 2])
    return c1 + c2


def sed_decrypt(cid, key, body):
    bs = algo.block_size(cid)
    if len(body) < bs + 2:
        raise DecryptError('too short')
    pre = algo.cfb_decrypt(cid, key, body[:bs + 2])
    if pre[bs - 2:bs] != pre[bs:bs + 2]:
        raise DecryptError('prefix repeat check failed')
    return algo.cfb_decrypt(cid, key, body[bs + 2:], iv=body[2:bs + 2]), pre[:bs]


# --- SKESK -------------------------------------------------------------------------
class SKESK(object):
    def __init__(self):
        self.cipher = 0
        self.s2k_type = 0
        self.hash = 0
        self.salt = b''
        self.count = 0
        self.esk = b''


def parse_skesk(body):
    body = bytes(body)
    if len(body) < 4 or body[0] != 4:
        raise WireError('SKESK version')
    s = SKESK()
    s.cipher, s.s2k_type, s.hash = body[1], body[2], body[3]
    off = 4
    if s.s2k_type in (1, 3):
        s.salt = body[off:off + 8]
        off += 8
    if s.s2k_type == 3:
        s.count = body[off]
        off += 1
    s.esk = body[off:]
    return s


def skesk_session_key(s, passphrase):
    kek = algo.s2k(s.s2k_type, s.hash, passphrase, algo.key_size(s.cipher), s.salt, s.count)
    if not s.esk:
        return s.cipher, kek
    m = algo.cfb_decrypt(s.cipher, kek, s.esk)
    cid = m[0]
    if cid not in algo.CIPHERS or len(m) - 1 != algo.key_size(cid):
        raise DecryptError('decrypted session key does not fit its cipher')
    return cid, m[1:]


def build_skesk(cipher, s2k_type, hid, passphrase, salt=b'', count=0, session=None):
    """session: None -> the S2K output *is* the session key; (cid, key) -> encrypted session key."""
    out = bytearray([4, cipher, s2k_type, hid])
    if s2k_type in (1, 3):
        out += salt
    if s2k_type == 3:
        out.append(count)
    if session is not None:
        kek = algo.s2k(s2k_type, hid, passphrase, algo.key_size(cipher), salt, count)
        out += algo.cfb_encrypt(cipher, kek, bytes([session[0]]) + session[1])
    return bytes(out)


# --- PKESK -------------------------------------------------------------------------
class PKESK(object):
    def __init__(self):
        self.keyid = b''
        self.alg = 0
        self.mpis = []
        self.point = None
        self.wrapped = b''
        self.raw_fields = b''


def parse_pkesk(body):
    body = bytes(body)
    if len(body) < 10 or body[0] != 3:
        raise WireError('PKESK version')
    p = PKESK()
    p.keyid = body[1:9]
    p.alg = body[9]
    off = 10
    p.raw_fields = body[off:]
    if p.alg in (keys.RSA_ES, keys.RSA_E):
        v, off, _ = read_mpi(body, off)
        p.mpis = [v]
    elif p.alg == keys.ECDH:
        p.point, off = read_mpi_raw(body, off)
        n = body[off]
        p.wrapped = body[off + 1:off + 1 + n]
        if len(p.wrapped) != n:
            raise WireError('truncated wrapped key')
        off += 1 + n
    elif p.alg in (keys.ELG, keys.ELG_ES):
        a, off, _ = read_mpi(body, off)
        b, off, _ = read_mpi(body, off)
        p.mpis = [a, b]
    else:
        raise WireError('unknown PKESK algorithm %d' % p.alg)
    if off != len(body):
        raise WireError('trailing octets in PKESK')
    return p


def _sk_block(cid, key):
    return bytes([cid]) + bytes(key) + (sum(key) % 65536).to_bytes(2, 'big')


def _parse_sk_block(m):
    if len(m) < 4:
        raise DecryptError('session key block too short')
    cid = m[0]
    if cid not in algo.CIPHERS:
        raise DecryptError('unknown cipher in session key block')
    ks = algo.key_size(cid)
    if len(m) != 1 + ks + 2:
        raise DecryptError('session key block length %d does not fit cipher %d' % (len(m), cid))
    key = m[1:1 + ks]
    if sum(key) % 65536 != int.from_bytes(m[1 + ks:], 'big'):
        raise DecryptError('session key checksum')
    return cid, key


def _ecdh_shared(pub, secret, point):
    if pub.curve == 'cv25519':
        if point[0] != 0x40:
            raise DecryptError('bad point format')
        priv = x25519.X25519PrivateKey.from_private_bytes(secret['s'].to_bytes(32, 'big')[::-1])
        return priv.exchange(x25519.X25519PublicKey.from_public_bytes(point[1:]))
    crv = keys._EC[pub.curve]()
    priv = ec.derive_private_key(secret['s'], crv)
    return priv.exchange(ec.ECDH(), ec.EllipticCurvePublicKey.from_encoded_point(crv, point))


def pkesk_session_key(p, pub, secret):
    """Recover (cipher id, session key) with the recipient's secret numbers."""
    if p.alg in (keys.RSA_ES, keys.RSA_E):
        n = pub.mpis['n']
        klen = (n.bit_length() + 7) // 8
        em = pow(p.mpis[0], secret['d'], n).to_bytes(klen, 'big')
        if em[0:2] != b'\x00\x02':
            raise DecryptError('PKCS#1 block type')
        sep = em.find(b'\x00', 2)
        if sep < 10:
            raise DecryptError('PKCS#1 padding too short')
        return _parse_sk_block(em[sep + 1:])
    if p.alg == keys.ECDH:
        zz = _ecdh_shared(pub, secret, p.point)
        kdf_hash, kek_alg = pub.kdf
        kek = algo.ecdh_kdf(kdf_hash, zz, algo.key_size(kek_alg), pub.oid, kdf_hash, kek_alg, pub.fingerprint)
        try:
            m = algo.pkcs5_unpad(algo.aes_unwrap(kek, p.wrapped))
        except algo.AlgoError as e:
            raise DecryptError(str(e))
        return _parse_sk_block(m)
    raise DecryptError('cannot decrypt algorithm %d' % p.alg)


def build_pkesk(pub, cid, key, rnd, keyid=None, ecdh_pad_to=None):
    """rnd: octets for the PKCS#1 padding / the ephemeral ECDH key."""
    m = _sk_block(cid, key)
    out = bytearray([3]) + (keyid if keyid is not None else pub.keyid) + bytes([pub.alg])
    if pub.alg in (keys.RSA_ES, keys.RSA_E):
        n, e = pub.mpis['n'], pub.mpis['e']
        klen = (n.bit_length() + 7) // 8
        ps = bytes((b % 255) + 1 for b in rnd[:klen - 3 - len(m)])
        if len(ps) < klen - 3 - len(m):
            ps += b'\x55' * (klen - 3 - len(m) - len(ps))
        em = b'\x00\x02' + ps + b'\x00' + m
        out += mpi(pow(int.from_bytes(em, 'big'), e, n))
        return bytes(out)
    if pub.alg == keys.ECDH:
        if pub.curve == 'cv25519':
            eph = x25519.X25519PrivateKey.from_private_bytes(bytes(rnd[:32]))
            vb = b'\x40' + eph.public_key().public_bytes(serialization.Encoding.Raw, serialization.PublicFormat.Raw)
            zz = eph.exchange(x25519.X25519PublicKey.from_public_bytes(pub.point[1:]))
        else:
            crv = keys._EC[pub.curve]()
            d = int.from_bytes(rnd[:crv.key_size // 8], 'big') | 1
            eph = ec.derive_private_key(d, crv)
            vb = eph.public_key().public_bytes(serialization.Encoding.X962, serialization.PublicFormat.UncompressedPoint)
            zz = eph.exchange(ec.ECDH(), ec.EllipticCurvePublicKey.from_encoded_point(crv, pub.point))
        kdf_hash, kek_alg = pub.kdf
        kek = algo.ecdh_kdf(kdf_hash, zz, algo.key_size(kek_alg), pub.oid, kdf_hash, kek_alg, pub.fingerprint)
        c = algo.aes_wrap(kek, algo.pkcs5_pad(m, ecdh_pad_to))
        out += mpi(vb) + bytes([len(c)]) + c
        return bytes(out)
    raise WireError('cannot encrypt to algorithm %d' % pub.alg)


# --- literal / compressed / OPS ------------------------------------------------------
class Literal(object):
    def __init__(self, fmt=b'b', filename=b'', mtime=0, data=b''):
        self.fmt = fmt
        self.filename = filename
        self.mtime = mtime
        self.data = data


def parse_literal(body):
    body = bytes(body)
    if len(body) < 6:
        raise WireError('literal packet too short')
    fl = body[1]
    if 2 + fl + 4 > len(body):
        raise WireError('literal filename runs past the packet')
    return Literal(body[0:1], body[2:2 + fl], int.from_bytes(body[2 + fl:6 + fl], 'big'), body[6 + fl:])


def build_literal(fmt, filename, mtime, data):
    filename = bytes(filename)
    if len(filename) > 255:
        raise WireError('filename too long')
    return bytes(fmt[:1]) + bytes([len(filename)]) + filename + int(mtime).to_bytes(4, 'big') + bytes(data)


def decompress(body):
    body = bytes(body)
    if not body:
        raise WireError('empty compressed packet')
    a = body[0]
    if a == 0:
        return body[1:]
    if a == 1:
        d = zlib.decompressobj(-15)
        return d.decompress(body[1:]) + d.flush()
    if a == 2:
        return zlib.decompress(body[1:])
    if a == 3:
        return bz2.decompress(body[1:])
    raise WireError('unknown compression algorithm %d' % a)


def compress(alg, data):
    if alg == 0:
        return b'\x00' + data
    if alg == 1:
        c = zlib.compressobj(6, zlib.DEFLATED, -15)
        return b'\x01' + c.compress(data) + c.flush()
    if alg == 2:
        return b'\x02' + zlib.compress(data)
    if alg == 3:
        return b'\x03' + bz2.compress(data)
    raise WireError('unknown compression algorithm %d' % alg)


class OPS(object):
    def __init__(self, body):
        body = bytes(body)
        if len(body) != 13 or body[0] != 3:
            raise WireError('bad one-pass signature packet')
        self.type, self.halg, self.pkalg = body[1], body[2], body[3]
        self.keyid = body[4:12]
        self.last = body[12]


def build_ops(type_, halg, pkalg, keyid, last):
    return bytes([3, type_, halg, pkalg]) + keyid + bytes([last])


# --- grammar (11.3) -----------------------------------------------------------------
class MsgShape(object):
    """Result of recognising an OpenPGP message."""

    def __init__(self):
        self.kind = None           # 'literal', 'signed', 'compressed', 'encrypted'
        self.esks = []             # Pkt list
        self.container = None      # Pkt of tag 9/18
        self.compression = None    # algorithm id when the top level is a compressed packet
        self.ops = []              # OPS objects in order of appearance
        self.sigs = []             # sigs.Sig bodies (bytes) in order of appearance (trailing)
        self.prefix_sigs = []      # old-style signatures preceding the message
        self.literal = None
        self.errors = []
        self.depth = 0


def recognise(data, _depth=0):
    """Parse data as an OpenPGP message per RFC 4880 11.3.  Returns MsgShape; .errors lists
    grammar violations (empty = derivable from the grammar)."""
    sh = MsgShape()
    sh.depth = _depth
    try:
        pk = [p for p in split_packets(data) if p.tag != TAG_MARKER]
    except WireError as e:
        sh.errors.append('framing: %s' % e)
        return sh
    if not pk:
        sh.errors.append('empty message')
        return sh
    if pk[0].tag in (TAG_PKESK, TAG_SKESK, TAG_SED, TAG_SEIPD):
        sh.kind = 'encrypted'
        i = 0
        while i < len(pk) and pk[i].tag in (TAG_PKESK, TAG_SKESK):
            sh.esks.append(pk[i])
            i += 1
        if i >= len(pk) or pk[i].tag not in (TAG_SED, TAG_SEIPD):
            sh.errors.append('session key packets not followed by an encrypted data packet')
            return sh
        sh.container = pk[i]
        if i + 1 != len(pk):
            sh.errors.append('%d packet(s) after the encrypted data packet' % (len(pk) - i - 1))
        return sh
    if pk[0].tag == TAG_COMP:
        sh.kind = 'compressed'
        if len(pk) != 1:
            sh.errors.append('packets outside the compressed packet: tags %s' % [p.tag for p in pk[1:]])
        try:
            inner = decompress(pk[0].body)
        except Exception as e:
            sh.errors.append('decompression failed: %s' % e)
            return sh
        sh.compression = pk[0].body[0]
        isub = recognise(inner, _depth + 1)
        sh.errors.extend('inner: ' + e for e in isub.errors)
        sh.ops, sh.sigs, sh.prefix_sigs, sh.literal = isub.ops, isub.sigs, isub.prefix_sigs, isub.literal
        sh.inner_kind = isub.kind
        return sh
    i = 0
    while i < len(pk) and pk[i].tag == TAG_SIG:
        sh.prefix_sigs.append(pk[i].body)
        i += 1
    while i < len(pk) and pk[i].tag == TAG_OPS:
        try:
            sh.ops.append(OPS(pk[i].body))
        except WireError as e:
            sh.errors.append(str(e))
        i += 1
    if i >= len(pk):
        sh.errors.append('no literal data')
        return sh
    if pk[i].tag == TAG_LIT:
        try:
            sh.literal = parse_literal(pk[i].body)
        except WireError as e:
            sh.errors.append(str(e))
        i += 1
    elif pk[i].tag == TAG_COMP:
        # signed compressed message: OPS, Compressed(literal), SIG
        try:
            isub = recognise(pk[i].raw, _depth + 1)
            sh.errors.extend('inner: ' + e for e in isub.errors)
            sh.literal = isub.literal
            sh.compression = isub.compression
            sh.signed_over_compressed = True
        except Exception as e:      # pragma: no cover
            sh.errors.append(str(e))
        i += 1
    else:
        sh.errors.append('expected literal data, got tag %d' % pk[i].tag)
        return sh
    while i < len(pk) and pk[i].tag == TAG_SIG:
        sh.sigs.append(pk[i].body)
        i += 1
    if i != len(pk):
        sh.errors.append('unexpected trailing packets: tags %s' % [p.tag for p in pk[i:]])
    sh.kind = 'signed' if (sh.ops or sh.sigs or sh.prefix_sigs) else 'literal'
    if len(sh.ops) != len(sh.sigs):
        sh.errors.append('%d one-pass packets but %d trailing signatures' % (len(sh.ops), len(sh.sigs)))
    return sh


def decrypt_message(data, passphrase=None, recipients=()):
    """recipients: iterable of (PubKey, secret dict).  Returns (inner packet octets, info dict)."""
    sh = recognise(data)
    if sh.kind != 'encrypted' or sh.errors:
        raise DecryptError('not a well-formed encrypted message: %s' % sh.errors)
    session = None
    info = {'esk_tags': [p.tag for p in sh.esks], 'container': sh.container.tag}
    errs = []
    for p in sh.esks:
        try:
            if p.tag == TAG_SKESK and passphrase is not None:
                session = skesk_session_key(parse_skesk(p.body), passphrase)
            elif p.tag == TAG_PKESK:
                pk = parse_pkesk(p.body)
                for pub, secret in recipients:
                    if pk.keyid == pub.keyid or pk.keyid == bytes(8):
                        session = pkesk_session_key(pk, pub, secret)
                        break
        except (DecryptError, algo.AlgoError, WireError, ValueError) as e:
            errs.append(str(e))
            session = None
        if session is not None:
            # try it; a wrong passphrase on SKESK without check shows up below
            try:
                cid, key = session
                if sh.container.tag == TAG_SEIPD:
                    pt, prefix = seipd_decrypt(cid, key, sh.container.body)
                else:
                    pt, prefix = sed_decrypt(cid, key, sh.container.body)
                info.update({'cipher': cid, 'session_key': key, 'prefix': prefix})
                return pt, info
            except (DecryptError, algo.AlgoError) as e:
                errs.append(str(e))
                session = None
    raise DecryptError('no usable session key: %s' % '; '.join(errs))
