"""Reference peer: key packets (RFC 4880 5.5, RFC 6637 9, EdDSA draft), fingerprints
(12.2), secret-key protection (5.5.3) in both directions, signature primitives per
algorithm (5.2.2).  Imports nothing from pgpy."""
import hashlib

from cryptography.exceptions import InvalidSignature
from cryptography.hazmat.primitives import hashes, serialization
from cryptography.hazmat.primitives.asymmetric import dsa, ec, ed25519, rsa, utils, x25519

from . import algo
from .wire import WireError, mpi, read_mpi, read_mpi_raw

RSA_ES, RSA_E, RSA_S, ELG, DSA, ECDH, ECDSA, ELG_ES, EDDSA = 1, 2, 3, 16, 17, 18, 19, 20, 22

_EC = {'p256': ec.SECP256R1, 'p384': ec.SECP384R1, 'p521': ec.SECP521R1, 'secp256k1': ec.SECP256K1}
_CHASH = {1: hashes.MD5, 2: hashes.SHA1, 8: hashes.SHA256, 9: hashes.SHA384, 10: hashes.SHA512, 11: hashes.SHA224}


class KeyError_(Exception):
    pass


class PubKey(object):
    """Parsed public part of a key packet body."""

    def __init__(self):
        self.version = 4
        self.created = 0
        self.alg = 0
        self.mpis = {}          # name -> int
        self.oid = None         # bytes
        self.curve = None       # name
        self.point = None       # raw octets of the point MPI value (with 0x04 / 0x40 prefix)
        self.kdf = None         # (hash id, cipher id)
        self.publen = 0         # octets of the body that make up the public packet
        self.body = b''         # public body octets exactly as received

    @property
    def fingerprint(self):
        return hashlib.sha1(b'\x99' + len(self.body).to_bytes(2, 'big') + self.body).digest()

    @property
    def keyid(self):
        return self.fingerprint[-8:]

    def hash_prefix(self):
        return b'\x99' + len(self.body).to_bytes(2, 'big') + self.body

    def canonical_body(self):
        """The body re-encoded from the decoded values (canonical MPI bit counts).  Two bodies
        with the same canonical form carry the same key; used to decide whether a channel
        fault changed the key *material* or only its encoding."""
        if self.alg in (ECDSA, EDDSA, ECDH):
            return build_pub_body(self.created, self.alg, oid=self.oid, point=self.point, kdf=self.kdf)
        order = {RSA_ES: ('n', 'e'), RSA_E: ('n', 'e'), RSA_S: ('n', 'e'), DSA: ('p', 'q', 'g', 'y'), ELG: ('p', 'g', 'y'),
                 ELG_ES: ('p', 'g', 'y')}[self.alg]
        return build_pub_body(self.created, self.alg, [self.mpis[n] for n in order])

    def canonical_prefix(self):
        b = self.canonical_body()
        return b'\x99' + len(b).to_bytes(2, 'big') + b


def parse_pub(body):
    """Parse the public portion at the start of body; returns PubKey with .publen set."""
    body = bytes(body)
    k = PubKey()
    if len(body) < 6:
        raise WireError('key packet too short')
    k.version = body[0]
    if k.version != 4:
        raise WireError('only version 4 keys are handled by the reference peer (got %d)' % k.version)
    k.created = int.from_bytes(body[1:5], 'big')
    k.alg = body[5]
    off = 6
    if k.alg in (RSA_ES, RSA_E, RSA_S):
        names = ('n', 'e')
    elif k.alg == DSA:
        names = ('p', 'q', 'g', 'y')
    elif k.alg in (ELG, ELG_ES):
        names = ('p', 'g', 'y')
    elif k.alg in (ECDSA, EDDSA, ECDH):
        names = ()
        ol = body[off]
        if ol in (0, 0xFF) or off + 1 + ol > len(body):
            raise WireError('bad OID length')
        k.oid = body[off + 1:off + 1 + ol]
        off += 1 + ol
        k.curve = algo.CURVES.get(k.oid, ('unknown', 0))[0]
        k.point, off = read_mpi_raw(body, off)
        if k.alg == ECDH:
            if off + 4 > len(body) or body[off] != 3 or body[off + 1] != 1:
                raise WireError('bad KDF parameter block')
            k.kdf = (body[off + 2], body[off + 3])
            off += 4
    else:
        raise WireError('unknown public-key algorithm %d' % k.alg)
    for n in names:
        k.mpis[n], off, _ = read_mpi(body, off)
    k.publen = off
    k.body = body[:off]
    return k


def build_pub_body(created, alg, mpis=None, oid=None, point=None, kdf=None):
    out = bytearray([4]) + int(created).to_bytes(4, 'big') + bytes([alg])
    if alg in (ECDSA, EDDSA, ECDH):
        out += bytes([len(oid)]) + oid + mpi(point)
        if alg == ECDH:
            out += bytes([3, 1, kdf[0], kdf[1]])
    else:
        for v in mpis:
            out += mpi(v)
    return bytes(out)


class SecKey(object):
    def __init__(self):
        self.pub = None
        self.usage = 0
        self.cipher = 0
        self.s2k_type = None
        self.s2k_hash = 0
        self.salt = b''
        self.count = 0
        self.gnu = None
        self.iv = b''
        self.enc = b''          # encrypted octets (incl. hash/checksum) when usage != 0
        self.secret = None      # dict name -> int when in the clear
        self.secret_raw = b''   # cleartext MPI octets as received (usage 0), without checksum
        self.checksum = None


SECRET_NAMES = {RSA_ES: ('d', 'p', 'q', 'u'), RSA_E: ('d', 'p', 'q', 'u'), RSA_S: ('d', 'p', 'q', 'u'),
                DSA: ('x',), ELG: ('x',), ELG_ES: ('x',), ECDSA: ('s',), EDDSA: ('s',), ECDH: ('s',)}


def _parse_secret_mpis(alg, data):
    off = 0
    out = {}
    for n in SECRET_NAMES[alg]:
        out[n], off, _ = read_mpi(data, off)
    return out, off


def parse_sec(body):
    body = bytes(body)
    s = SecKey()
    s.pub = parse_pub(body)
    off = s.pub.publen
    if off >= len(body):
        raise WireError('secret key packet without secret part')
    s.usage = body[off]
    off += 1
    if s.usage in (254, 255):
        s.cipher = body[off]
        s.s2k_type = body[off + 1]
        off += 2
        if s.s2k_type == 101:
            if body[off:off + 4] != b'\x00GNU':
                raise WireError('bad GNU S2K extension')
            s.gnu = body[off + 4]
            off += 5
            s.enc = body[off:]
            return s
        s.s2k_hash = body[off]
        off += 1
        if s.s2k_type in (1, 3):
            s.salt = body[off:off + 8]
            off += 8
        if s.s2k_type == 3:
            s.count = body[off]
            off += 1
        bs = algo.block_size(s.cipher)
        s.iv = body[off:off + bs]
        off += bs
        s.enc = body[off:]
    elif s.usage == 0:
        s.secret, n = _parse_secret_mpis(s.pub.alg, body[off:])
        s.secret_raw = body[off:off + n]
        s.checksum = body[off + n:off + n + 2]
        if len(body) != off + n + 2:
            raise WireError('trailing octets after the secret key checksum')
        if int.from_bytes(s.checksum, 'big') != sum(s.secret_raw) % 65536:
            raise WireError('secret key checksum mismatch')
    else:
        # legacy: usage octet is the cipher id, simple MD5 S2K
        s.cipher = s.usage
        s.s2k_type = 0
        s.s2k_hash = 1
        bs = algo.block_size(s.cipher)
        s.iv = body[off:off + bs]
        s.enc = body[off + bs:]
    return s


def unprotect(sec, passphrase):
    """Returns the dict of secret integers; raises on wrong passphrase / damaged data."""
    if sec.usage == 0:
        return dict(sec.secret)
    if sec.s2k_type == 101:
        raise KeyError_('GNU dummy/smartcard stub: no secret present')
    key = algo.s2k(sec.s2k_type, sec.s2k_hash, passphrase, algo.key_size(sec.cipher), sec.salt, sec.count)
    pt = algo.cfb_decrypt(sec.cipher, key, sec.enc, sec.iv)
    if sec.usage == 254:
        if len(pt) < 20 or hashlib.sha1(pt[:-20]).digest() != pt[-20:]:
            raise KeyError_('SHA-1 check of the secret key material failed')
        data = pt[:-20]
    else:
        if len(pt) < 2 or sum(pt[:-2]) % 65536 != int.from_bytes(pt[-2:], 'big'):
            raise KeyError_('checksum of the secret key material failed')
        data = pt[:-2]
    out, n = _parse_secret_mpis(sec.pub.alg, data)
    if n != len(data):
        raise KeyError_('trailing octets inside the decrypted secret key material')
    return out


def secret_mpi_octets(alg, secret):
    return b''.join(mpi(secret[n]) for n in SECRET_NAMES[alg])


def build_sec_body(pub_body, alg, secret, protect=None):
    """protect: None (usage 0) or dict(usage=254|255, cipher, s2k_type, hash, salt, count, iv, passphrase)."""
    raw = secret_mpi_octets(alg, secret)
    if protect is None:
        return pub_body + b'\x00' + raw + (sum(raw) % 65536).to_bytes(2, 'big')
    p = protect
    out = bytearray(pub_body) + bytes([p['usage'], p['cipher'], p['s2k_type'], p['hash']])
    if p['s2k_type'] in (1, 3):
        out += p['salt']
    if p['s2k_type'] == 3:
        out.append(p['count'])
    out += p['iv']
    key = algo.s2k(p['s2k_type'], p['hash'], p['passphrase'], algo.key_size(p['cipher']), p.get('salt', b''), p.get('count', 0))
    if p['usage'] == 254:
        pt = raw + hashlib.sha1(raw).digest()
    else:
        pt = raw + (sum(raw) % 65536).to_bytes(2, 'big')
    out += algo.cfb_encrypt(p['cipher'], key, pt, p['iv'])
    return bytes(out)


def build_gnu_dummy_body(pub_body, card_serial=None):
    """GnuPG's S2K extension 101: mode 1 = secret part not present; mode 2 = the key lives on a smartcard (a length octet and
    the card's serial number follow)"""
    if card_serial is not None:
        return pub_body + bytes([254, 0, 101]) + b'\x00GNU' + b'\x02' + bytes([len(card_serial)]) + bytes(card_serial)
    return pub_body + bytes([254, 0, 101]) + b'\x00GNU' + b'\x01'


# ---------------------------------------------------------------------------
# public-key operations on raw numbers
# ---------------------------------------------------------------------------
def _ec_pub(k):
    crv = _EC.get(k.curve)
    if crv is None:
        raise KeyError_('curve %r unsupported by the reference peer' % k.curve)
    return ec.EllipticCurvePublicKey.from_encoded_point(crv(), k.point)


def verify_digest(k, hid, dig, sig_mpis):
    """k: PubKey; dig: digest octets; sig_mpis: list of ints (RSA: [m], DSA/ECDSA/EdDSA: [r, s])."""
    if k.alg in (RSA_ES, RSA_S):
        n, e = k.mpis['n'], k.mpis['e']
        klen = (n.bit_length() + 7) // 8
        m = sig_mpis[0]
        if m >= n:
            return False
        em = pow(m, e, n).to_bytes(klen, 'big')
        try:
            return em == algo.emsa_pkcs1_v15(hid, dig, klen)
        except algo.AlgoError:
            return False
    if k.alg == DSA:
        pn = dsa.DSAParameterNumbers(k.mpis['p'], k.mpis['q'], k.mpis['g'])
        pub = dsa.DSAPublicNumbers(k.mpis['y'], pn).public_key()
        r, s = sig_mpis
        try:
            pub.verify(utils.encode_dss_signature(r, s), dig, utils.Prehashed(_prehash(hid, dig)))
            return True
        except (InvalidSignature, ValueError):
            return False
    if k.alg == ECDSA:
        pub = _ec_pub(k)
        r, s = sig_mpis
        try:
            pub.verify(utils.encode_dss_signature(r, s), dig, ec.ECDSA(utils.Prehashed(_prehash(hid, dig))))
            return True
        except (InvalidSignature, ValueError):
            return False
    if k.alg == EDDSA:
        if not k.point or k.point[0] != 0x40:
            raise KeyError_('EdDSA point must use the native 0x40 prefix')
        pub = ed25519.Ed25519PublicKey.from_public_bytes(k.point[1:])
        r, s = sig_mpis
        if r >= 1 << 256 or s >= 1 << 256:
            return False
        try:
            pub.verify(r.to_bytes(32, 'big') + s.to_bytes(32, 'big'), dig)
            return True
        except InvalidSignature:
            return False
    raise KeyError_('algorithm %d cannot verify' % k.alg)


class _AnyHash(hashes.HashAlgorithm):
    """Prehashed() only looks at digest_size; this carries an arbitrary one (RIPEMD160...)."""

    def __init__(self, name, size):
        self._name = name
        self._size = size

    name = property(lambda self: self._name)
    digest_size = property(lambda self: self._size)
    block_size = None


def _prehash(hid, dig):
    c = _CHASH.get(hid)
    if c is not None:
        return c()
    # same digest size is all Prehashed needs
    for cand in (hashes.SHA1, hashes.SHA224, hashes.SHA256, hashes.SHA384, hashes.SHA512, hashes.MD5):
        if cand.digest_size == len(dig):
            return cand()
    raise KeyError_('no stand-in for digest size %d' % len(dig))


def sign_digest(k, secret, hid, dig):
    """Returns list of signature integers."""
    if k.alg in (RSA_ES, RSA_S):
        n = k.mpis['n']
        klen = (n.bit_length() + 7) // 8
        em = int.from_bytes(algo.emsa_pkcs1_v15(hid, dig, klen), 'big')
        return [pow(em, secret['d'], n)]
    if k.alg == DSA:
        pn = dsa.DSAParameterNumbers(k.mpis['p'], k.mpis['q'], k.mpis['g'])
        priv = dsa.DSAPrivateNumbers(secret['x'], dsa.DSAPublicNumbers(k.mpis['y'], pn)).private_key()
        r, s = utils.decode_dss_signature(priv.sign(dig, utils.Prehashed(_prehash(hid, dig))))
        return [r, s]
    if k.alg == ECDSA:
        priv = ec.derive_private_key(secret['s'], _EC[k.curve]())
        r, s = utils.decode_dss_signature(priv.sign(dig, ec.ECDSA(utils.Prehashed(_prehash(hid, dig)))))
        return [r, s]
    if k.alg == EDDSA:
        priv = ed25519.Ed25519PrivateKey.from_private_bytes(secret['s'].to_bytes(32, 'big'))
        sg = priv.sign(dig)
        return [int.from_bytes(sg[:32], 'big'), int.from_bytes(sg[32:], 'big')]
    raise KeyError_('algorithm %d cannot sign' % k.alg)


def public_matches_secret(k, secret):
    """Does the secret material belong to the public key? (independent consistency check)"""
    if k.alg in (RSA_ES, RSA_E, RSA_S):
        n = k.mpis['n']
        return secret['p'] * secret['q'] == n and pow(pow(2, k.mpis['e'], n), secret['d'], n) == 2 \
            and (secret['u'] * secret['p']) % secret['q'] == 1
    if k.alg in (DSA, ELG, ELG_ES):
        return pow(k.mpis['g'], secret['x'], k.mpis['p']) == k.mpis['y']
    if k.alg == ECDSA or (k.alg == ECDH and k.curve != 'cv25519'):
        priv = ec.derive_private_key(secret['s'], _EC[k.curve]())
        pt = priv.public_key().public_bytes(serialization.Encoding.X962, serialization.PublicFormat.UncompressedPoint)
        return pt == k.point
    if k.alg == EDDSA:
        priv = ed25519.Ed25519PrivateKey.from_private_bytes(secret['s'].to_bytes(32, 'big'))
        return b'\x40' + priv.public_key().public_bytes(serialization.Encoding.Raw, serialization.PublicFormat.Raw) == k.point
    if k.alg == ECDH:
        priv = x25519.X25519PrivateKey.from_private_bytes(secret['s'].to_bytes(32, 'big')[::-1])
        return b'\x40' + priv.public_key().public_bytes(serialization.Encoding.Raw, serialization.PublicFormat.Raw) == k.point
    raise KeyError_('unsupported')


# --- reference key generation from supplied octets (for foreign keys) ---------
def gen_key(kind, created, seed_octets, kdf=None):
    """kind in ed25519, cv25519, p256, p384, p521, secp256k1, ecdh_p256..., returns (pub_body, alg, secret dict)."""
    if kind == 'ed25519':
        priv = ed25519.Ed25519PrivateKey.from_private_bytes(seed_octets[:32])
        pt = b'\x40' + priv.public_key().public_bytes(serialization.Encoding.Raw, serialization.PublicFormat.Raw)
        body = build_pub_body(created, EDDSA, oid=algo.CURVE_OIDS['ed25519'], point=pt)
        return body, EDDSA, {'s': int.from_bytes(seed_octets[:32], 'big')}
    if kind == 'cv25519':
        raw = bytearray(seed_octets[:32])
        raw[0] &= 248
        raw[31] &= 127
        raw[31] |= 64
        priv = x25519.X25519PrivateKey.from_private_bytes(bytes(raw))
        pt = b'\x40' + priv.public_key().public_bytes(serialization.Encoding.Raw, serialization.PublicFormat.Raw)
        body = build_pub_body(created, ECDH, oid=algo.CURVE_OIDS['cv25519'], point=pt, kdf=tuple(kdf) if kdf else (8, 7))
        return body, ECDH, {'s': int.from_bytes(bytes(raw)[::-1], 'big')}
    ecdh = kind.startswith('ecdh_')
    cname = kind[5:] if ecdh else kind
    crv = _EC[cname]()
    order = algo.EC_ORDERS[cname]
    d = int.from_bytes(seed_octets, 'big') % (order - 1) + 1
    priv = ec.derive_private_key(d, crv)
    pt = priv.public_key().public_bytes(serialization.Encoding.X962, serialization.PublicFormat.UncompressedPoint)
    if ecdh:
        kdf = tuple(kdf) if kdf else {'p256': (8, 7), 'p384': (9, 8), 'p521': (10, 9), 'secp256k1': (8, 7)}[cname]
        return build_pub_body(created, ECDH, oid=algo.CURVE_OIDS[cname], point=pt, kdf=kdf), ECDH, {'s': d}
    return build_pub_body(created, ECDSA, oid=algo.CURVE_OIDS[cname], point=pt), ECDSA, {'s': d}


def rsa_from_pool(ent, created):
    p, q, d, e, n = (int(ent[k], 16) for k in ('p', 'q', 'd', 'e', 'n'))
    if p > q:
        p, q = q, p
    u = pow(p, -1, q)
    return build_pub_body(created, RSA_ES, [n, e]), RSA_ES, {'d': d, 'p': p, 'q': q, 'u': u}


def elg_from_pool(ent, created, seed_octets):
    """an ElGamal (encrypt-only) key over the group of a pooled DSA parameter set"""
    p, q, g = (int(ent[k], 16) for k in ('p', 'q', 'g'))
    x = int.from_bytes(seed_octets, 'big') % (q - 1) + 1
    y = pow(g, x, p)
    return build_pub_body(created, ELG, [p, g, y]), ELG, {'x': x}


def dsa_from_pool(ent, created, seed_octets):
    p, q, g = (int(ent[k], 16) for k in ('p', 'q', 'g'))
    x = int.from_bytes(seed_octets, 'big') % (q - 1) + 1
    y = pow(g, x, p)
    return build_pub_body(created, DSA, [p, q, g, y]), DSA, {'x': x}
