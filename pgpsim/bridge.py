"""Bridge between PGPy objects and the reference peer.  Only *exported octets* cross
the bridge (bytes(obj) / str(obj)); the reference peer never sees PGPy internals."""
from .ref import armor, enc, keys, sigs, tkey
from .ref.wire import WireError, encode_packet, split_packets


def ref_tkey(pgpy_key_or_bytes):
    b = pgpy_key_or_bytes if isinstance(pgpy_key_or_bytes, (bytes, bytearray)) else bytes(pgpy_key_or_bytes)
    tks = tkey.parse_keys(b)
    if not tks:
        raise WireError('no key in export')
    return tks[0]


def ref_sig(pgpy_sig_or_bytes):
    b = pgpy_sig_or_bytes if isinstance(pgpy_sig_or_bytes, (bytes, bytearray)) else bytes(pgpy_sig_or_bytes)
    p = split_packets(b)
    if len(p) != 1 or p[0].tag != 2:
        raise WireError('expected exactly one signature packet, got tags %s' % [x.tag for x in p])
    return sigs.parse_sig(p[0].body)


def find_signer(tk, sig):
    """The key component (PubKey) of transferable key tk that sig names as its issuer."""
    iss = sig.issuer
    fpr = sig.issuer_fpr
    cands = [tk.pub] + [c.key for c in tk.subkeys]
    for k in cands:
        if iss is not None and k.keyid == iss:
            return k
    if iss is None and fpr is not None:
        for k in cands:
            if k.fingerprint == fpr:
                return k
    return None


def doc_octets(subject):
    """Octets PGPy's callers mean when they pass str / bytes as a document."""
    if subject is None:
        return b''
    if isinstance(subject, str):
        return subject.encode('utf-8')
    return bytes(subject)


def ref_uid_component(tk, pgpy_uid):
    """Match a PGPUID (by its public attributes) to the reference peer's component."""
    if pgpy_uid.is_uid:
        want = pgpy_uid.userid.encode('utf-8')
        for c in tk.uids:
            if c.kind == 'uid' and c.pkt.body == want:
                return c
    else:
        img = bytes(pgpy_uid.image)
        for c in tk.uids:
            if c.kind == 'uattr' and c.pkt.body.endswith(img) and len(c.pkt.body) >= len(img):
                return c
    return None


def key_packets(tk_bytes):
    return split_packets(tk_bytes)


def build_ref_tkey(pub_body, alg, secret, uid_octets, created, halg=8, extra_hashed=b'', secret_export=False, protect=None,
                   subkeys=(), uid_flags=0x03):
    """A complete transferable key made by the reference peer: key, uid, positive
    self-certification (type 0x13), optional subkeys with binding signatures.
    subkeys: list of (pub_body, alg, secret, flags)."""
    pub = keys.parse_pub(pub_body)
    out = bytearray()
    if secret_export:
        out += encode_packet(5, keys.build_sec_body(pub_body, alg, secret, protect))
    else:
        out += encode_packet(6, pub_body)
    out += encode_packet(13, uid_octets)
    hashed = (sigs.sp_created(created) + sigs.sp_keyflags(uid_flags) + sigs.encode_subpacket(sigs.SP_PREF_SYM, bytes([9, 8, 7]))
              + sigs.encode_subpacket(sigs.SP_PREF_HASH, bytes([8, 10, 9])) + sigs.encode_subpacket(sigs.SP_PREF_COMP, bytes([2, 1, 3, 0]))
              + sigs.encode_subpacket(sigs.SP_FEATURES, b'\x01') + sigs.sp_issuer_fpr(pub.fingerprint) + extra_hashed)
    unhashed = sigs.sp_issuer(pub.keyid)
    out += encode_packet(2, sigs.sign(0x13, pub, secret, halg, hashed, unhashed, sigs.subject_uid(pub, uid_octets)))
    for (sb, salg, ssecret, flags) in subkeys:
        spub = keys.parse_pub(sb)
        if secret_export:
            out += encode_packet(7, keys.build_sec_body(sb, salg, ssecret, protect))
        else:
            out += encode_packet(14, sb)
        subj = sigs.subject_subkey(pub, spub)
        uh = sigs.sp_issuer(pub.keyid)
        if flags & 0x02:
            eh = sigs.sp_created(created) + sigs.sp_issuer_fpr(spub.fingerprint)
            emb = sigs.sign(0x19, spub, ssecret, halg, eh, sigs.sp_issuer(spub.keyid), subj)
            uh += sigs.encode_subpacket(sigs.SP_EMBEDDED, emb)
        h = sigs.sp_created(created) + sigs.sp_keyflags(flags) + sigs.sp_issuer_fpr(pub.fingerprint)
        out += encode_packet(2, sigs.sign(0x18, pub, secret, halg, h, uh, subj))
    return bytes(out)
