"""World-building helpers shared by the property modules: key construction from
a JSON spec under the simulated clock / random source, name pools, hex helpers."""
import datetime as _dt

from . import seams

UTC = _dt.timezone.utc

ALGS = ('ed25519', 'p256', 'p384', 'p521', 'secp256k1', 'rsa1024', 'rsa2048', 'rsa2050', 'rsa3072', 'dsa1024', 'dsa2048')
ENC_ALGS = ('cv25519', 'ecdh_p256', 'ecdh_p384', 'ecdh_p521', 'ecdh_secp256k1', 'rsa1024', 'rsa2048', 'rsa3072')
FAST_SIGN_ALGS = ('ed25519', 'p256', 'p384', 'p521', 'secp256k1')
FAST_ENC_ALGS = ('cv25519', 'ecdh_p256', 'ecdh_p384', 'ecdh_p521', 'ecdh_secp256k1')


def alg_params(alg):
    from pgpy.constants import PubKeyAlgorithm as PK, EllipticCurveOID as OID
    t = {
        'ed25519': (PK.EdDSA, OID.Ed25519),
        'p256': (PK.ECDSA, OID.NIST_P256),
        'p384': (PK.ECDSA, OID.NIST_P384),
        'p521': (PK.ECDSA, OID.NIST_P521),
        'secp256k1': (PK.ECDSA, OID.SECP256K1),
        'cv25519': (PK.ECDH, OID.Curve25519),
        'ecdh_p256': (PK.ECDH, OID.NIST_P256),
        'ecdh_p384': (PK.ECDH, OID.NIST_P384),
        'ecdh_p521': (PK.ECDH, OID.NIST_P521),
        'ecdh_secp256k1': (PK.ECDH, OID.SECP256K1),
        'rsa1024': (PK.RSAEncryptOrSign, 1024),
        'rsa2048': (PK.RSAEncryptOrSign, 2048),
        'rsa2050': (PK.RSAEncryptOrSign, 2050),          # a modulus that is not a whole number of octets
        'rsa3072': (PK.RSAEncryptOrSign, 3072),
        'rsa4096': (PK.RSAEncryptOrSign, 4096),
        'dsa1024': (PK.DSA, 1024),
        'dsa2048': (PK.DSA, 2048),
        'dsa3072': (PK.DSA, 3072),
    }
    return t[alg]


def can_sign(alg):
    return not (alg.startswith('cv') or alg.startswith('ecdh'))


def can_encrypt(alg):
    return alg.startswith('cv') or alg.startswith('ecdh') or alg.startswith('rsa')


def dt_from_us(us):
    sec, u = divmod(int(us), 1_000_000)
    return _dt.datetime.fromtimestamp(sec, UTC).replace(microsecond=u)


def flags_from(names):
    from pgpy.constants import KeyFlags
    m = {'C': KeyFlags.Certify, 'S': KeyFlags.Sign, 'E': KeyFlags.EncryptCommunications,
         'T': KeyFlags.EncryptStorage, 'A': KeyFlags.Authentication}
    return {m[c] for c in names}


def created_datetime(created_us, tz=None):
    """The same instant spelled as a UTC-aware, otherwise-aware or naive datetime."""
    d = dt_from_us(created_us).replace(microsecond=0)
    if tz in (None, 'utc'):
        return d
    if tz == 'naive_utc':
        return d.replace(tzinfo=None)          # naive, fields read as UTC (PGPy warns and treats it so)
    h, m = tz
    return d.astimezone(_dt.timezone(_dt.timedelta(hours=h, minutes=m)))


def new_key(alg, label, created_us=None, created_tz=None):
    """Generate a bare PGPKey; key material comes from the simulator, keyed by label."""
    import pgpy
    rnd = seams.rnd()
    prev = rnd.step
    rnd.set_step('keygen:' + label)
    try:
        pk, size = alg_params(alg)
        created = created_datetime(created_us, created_tz) if created_us is not None else None
        return pgpy.PGPKey.new(pk, size, created=created)
    finally:
        rnd.set_step(prev)


def make_uid(u):
    import pgpy
    if isinstance(u, dict):
        if u.get('image'):
            return pgpy.PGPUID.new(bytearray(JPEG))
        return pgpy.PGPUID.new(u.get('name', 'x'), comment=u.get('comment', ''), email=u.get('email', ''))
    name, comment, email = (list(u) + ['', ''])[:3]
    return pgpy.PGPUID.new(name, comment=comment, email=email)


def build_key(spec, label):
    """spec: {'alg', 'uids': [[name, comment, email], ...], 'usage': 'CS', 'subkeys': [{'alg','usage'}],
    'created_us', 'prefs': {...}}.  Returns a private PGPKey."""
    from pgpy.constants import HashAlgorithm, SymmetricKeyAlgorithm, CompressionAlgorithm
    clock = seams.clock()
    if spec.get('created_us') is not None:
        clock.set(spec['created_us'])
    key = new_key(spec['alg'], label, spec.get('created_us'), spec.get('created_tz'))
    usage = flags_from(spec.get('usage', 'CS' if can_sign(spec['alg']) else 'E'))
    first = True
    for u in spec.get('uids', [['User ' + label, '', label + '@example.org']]):
        uid = make_uid(u)
        kw = dict(usage=usage,
                  hashes=[HashAlgorithm.SHA256, HashAlgorithm.SHA512],
                  ciphers=[SymmetricKeyAlgorithm(c) for c in spec['ciphers']] if spec.get('ciphers') else
                  [SymmetricKeyAlgorithm.AES256, SymmetricKeyAlgorithm.AES128],
                  compression=[CompressionAlgorithm.ZLIB, CompressionAlgorithm.ZIP, CompressionAlgorithm.BZ2,
                               CompressionAlgorithm.Uncompressed])
        if first and spec.get('primary_flag'):
            kw['primary'] = True
        if spec.get('key_expiration_s') is not None:
            kw['key_expiration'] = _dt.timedelta(seconds=spec['key_expiration_s'])
        key.add_uid(uid, **kw)
        first = False
    for i, sk in enumerate(spec.get('subkeys', [])):
        sub = new_key(sk['alg'], '%s.sub%d' % (label, i), sk.get('created_us', spec.get('created_us')), sk.get('created_tz'))
        su = flags_from(sk.get('usage', 'E' if not can_sign(sk['alg']) else 'S'))
        key.add_subkey(sub, usage=su)
    return key


# a minimal JFIF header so that imghdr says 'jpeg'
JPEG = bytes.fromhex('ffd8ffe000104a46494600010101004800480000ffdb004300') + bytes(range(64)) + bytes.fromhex('ffd9')


def hx(b):
    return bytes(b).hex()


def unhx(s):
    return bytes.fromhex(s)
