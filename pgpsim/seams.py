"""Seams: every source of nondeterminism PGPy touches goes through here.

* wall clock      -> SimClock, via the module-level name ``datetime`` of
                     pgpy.pgp, pgpy.packet.packets, pgpy.packet.subpackets.signature
* os.urandom      -> SimRandom.urandom (process wide while installed)
* key generation  -> proxies for pgpy.packet.fields.{rsa,dsa,ec,ed25519,x25519}
* files           -> SimFS (``open`` injected into pgpy.types / pgpy.pgp,
                     os.path.{isfile,getsize,getmtime} wrapped for the virtual root)

No source change in /repo is needed: all of these are existing module-level
names.  ``install()`` / ``uninstall()`` are idempotent.
"""
import datetime as _dt
import hashlib
import io
import json
import os
import sys

_real_datetime = _dt.datetime
_real_urandom = os.urandom


def derive(run_seed, step_id, purpose, n, counter=0):
    """Octets for one purpose of one step: independent of every other step, so
    deleting or reordering other steps during minimisation does not change
    what a surviving step sees."""
    h = hashlib.shake_256()
    h.update(('%s|%s|%s|%d' % (run_seed, step_id, purpose, counter)).encode())
    return h.digest(n)


class SimCancelled(BaseException):
    """Injected cancellation (not an Exception, like KeyboardInterrupt)."""


class SimOSError(OSError):
    """Injected failing system call."""


# --------------------------------------------------------------------------
# clock
# --------------------------------------------------------------------------
class SimClock(object):
    def __init__(self, start_us=1_600_000_000_000_000):
        self.us = start_us          # integer microseconds since the epoch
        self.reads = 0

    def now(self, tz=None):
        self.reads += 1
        sec, us = divmod(self.us, 1_000_000)
        d = _real_datetime.fromtimestamp(sec, _dt.timezone.utc).replace(microsecond=us)
        if tz is None:
            return d.replace(tzinfo=None)
        return d.astimezone(tz)

    def advance(self, delta_us):
        self.us += int(delta_us)

    def set(self, us):
        self.us = int(us)

    def dt(self):
        sec, us = divmod(self.us, 1_000_000)
        return _real_datetime.fromtimestamp(sec, _dt.timezone.utc).replace(microsecond=us)


_clock = SimClock()


class _SimDTMeta(type(_real_datetime)):
    def __instancecheck__(cls, obj):
        return isinstance(obj, _real_datetime)

    def __subclasscheck__(cls, sub):
        return issubclass(sub, _real_datetime)


class SimDateTime(_real_datetime, metaclass=_SimDTMeta):
    """Stands in for ``datetime`` inside PGPy modules.  Only now()/utcnow()
    read the simulated clock; everything else is the real class."""

    @classmethod
    def now(cls, tz=None):
        return _clock.now(tz)

    @classmethod
    def utcnow(cls):
        return _clock.now(None)

    @classmethod
    def fromtimestamp(cls, ts, tz=None):
        return _real_datetime.fromtimestamp(ts, tz)


# --------------------------------------------------------------------------
# randomness
# --------------------------------------------------------------------------
def _caller_name(depth=2):
    try:
        f = sys._getframe(depth)
        # walk out of this module
        while f is not None and f.f_code.co_filename == __file__:
            f = f.f_back
        names = []
        n = 0
        while f is not None and n < 4:
            names.append(f.f_code.co_name)
            f = f.f_back
            n += 1
        return '<'.join(names)
    except Exception:          # pragma: no cover
        return '?'


class SimRandom(object):
    """Serves unique, tagged octets and logs every draw."""

    def __init__(self, run_seed=0):
        self.run_seed = run_seed
        self.step = 'init'
        self.counter = 0
        self.log = []            # (step, kind, size, caller, value-bytes)
        self.fail_next = 0       # X3: raise OSError on the n-th next urandom (1 = next)
        self.fired_failures = 0
        self.override = None     # callable(kind, size) -> bytes or None
        self.used_pool = set()

    def set_step(self, step):
        self.step = step

    def _octets(self, kind, n):
        self.counter += 1
        if self.override is not None:
            v = self.override(kind, n)
            if v is not None:
                return v
        return derive(self.run_seed, self.step, 'rnd:' + kind, n, self.counter)

    def urandom(self, n):
        if self.fail_next:
            self.fail_next -= 1
            if self.fail_next == 0:
                self.fired_failures += 1
                raise SimOSError(5, 'simulated urandom failure')
        v = self._octets('urandom', n)
        self.log.append((self.step, 'urandom', n, _caller_name(), v))
        return v

    def keygen_octets(self, kind, n):
        v = self._octets(kind, n)
        self.log.append((self.step, kind, n, _caller_name(), v))
        return v

    def draws_since(self, mark):
        return self.log[mark:]

    def mark(self):
        return len(self.log)


_random = SimRandom()


# --------------------------------------------------------------------------
# key generation proxies
# --------------------------------------------------------------------------
_POOL = None


def pool():
    global _POOL
    if _POOL is None:
        p = os.path.join(os.path.dirname(__file__), 'pool', 'keys.json')
        with open(p) as f:
            _POOL = json.load(f)
    return _POOL


class _ModProxy(object):
    def __init__(self, real, **over):
        self.__dict__['_real'] = real
        self.__dict__.update(over)

    def __getattr__(self, name):
        return getattr(self._real, name)


class _ClsProxy(object):
    """Proxy for a class used only through classmethods/staticmethods."""

    def __init__(self, real, generate):
        self._real = real
        self._generate = generate

    def generate(self):
        return self._generate()

    def __getattr__(self, name):
        return getattr(self._real, name)

    def __instancecheck__(self, obj):        # pragma: no cover
        return isinstance(obj, self._real)


def _make_proxies():
    from cryptography.hazmat.primitives.asymmetric import rsa, dsa, ec, ed25519, x25519

    _orders = {}

    def ec_generate(curve, backend=None):
        # derive the private scalar from simulator octets
        size = (curve.key_size + 7) // 8
        raw = _random.keygen_octets('ec:' + curve.name, size + 8)
        order = _orders.get(curve.name)
        if order is None:
            order = _EC_ORDERS[curve.name]
            _orders[curve.name] = order
        d = (int.from_bytes(raw, 'big') % (order - 1)) + 1
        return ec.derive_private_key(d, curve)

    def ed_generate():
        raw = _random.keygen_octets('ed25519', 32)
        return ed25519.Ed25519PrivateKey.from_private_bytes(raw)

    def x_generate():
        raw = _random.keygen_octets('x25519', 32)
        return x25519.X25519PrivateKey.from_private_bytes(raw)

    def rsa_generate(public_exponent, key_size, backend=None):
        lst = pool()['rsa'].get(str(key_size))
        if not lst:
            return rsa.generate_private_key(public_exponent, key_size)
        raw = _random.keygen_octets('rsa:%d' % key_size, 4)
        # never hand the same pool entry to two keys of one run (two keys with one fingerprint are not a scenario)
        i = int.from_bytes(raw, 'big') % len(lst)
        for _ in range(len(lst)):
            if (key_size, i) not in _random.used_pool:
                break
            i = (i + 1) % len(lst)
        _random.used_pool.add((key_size, i))
        ent = lst[i]
        p, q, d, e, n = (int(ent[k], 16) for k in ('p', 'q', 'd', 'e', 'n'))
        return rsa.RSAPrivateNumbers(p, q, d, rsa.rsa_crt_dmp1(d, p), rsa.rsa_crt_dmq1(d, q),
                                     rsa.rsa_crt_iqmp(p, q), rsa.RSAPublicNumbers(e, n)
                                     ).private_key(unsafe_skip_rsa_key_validation=True)

    def dsa_generate(key_size, backend=None):
        lst = pool()['dsa'].get(str(key_size))
        if not lst:
            return dsa.generate_private_key(key_size)
        raw = _random.keygen_octets('dsa:%d' % key_size, 48)
        ent = lst[raw[0] % len(lst)]
        p, q, g = (int(ent[k], 16) for k in ('p', 'q', 'g'))
        x = (int.from_bytes(raw[1:], 'big') % (q - 1)) + 1
        y = pow(g, x, p)
        pn = dsa.DSAPublicNumbers(y, dsa.DSAParameterNumbers(p, q, g))
        return dsa.DSAPrivateNumbers(x, pn).private_key()

    return {
        'rsa': _ModProxy(rsa, generate_private_key=rsa_generate),
        'dsa': _ModProxy(dsa, generate_private_key=dsa_generate),
        'ec': _ModProxy(ec, generate_private_key=ec_generate),
        'ed25519': _ModProxy(ed25519, Ed25519PrivateKey=_ClsProxy(ed25519.Ed25519PrivateKey, ed_generate)),
        'x25519': _ModProxy(x25519, X25519PrivateKey=_ClsProxy(x25519.X25519PrivateKey, x_generate)),
    }


from .ref.algo import EC_ORDERS as _O  # noqa: E402
_EC_ORDERS = {'secp256r1': _O['p256'], 'secp384r1': _O['p384'], 'secp521r1': _O['p521'], 'secp256k1': _O['secp256k1']}


# --------------------------------------------------------------------------
# file system
# --------------------------------------------------------------------------
class SimFS(object):
    ROOT = '/simfs/'

    def __init__(self):
        self.files = {}     # path -> (bytes, mtime seconds)
        self.opens = 0

    def write(self, path, data, mtime=0):
        assert path.startswith(self.ROOT)
        self.files[path] = (bytes(data), mtime)

    def _mine(self, path):
        return isinstance(path, str) and path.startswith(self.ROOT)

    def open(self, path, mode='r', *a, **kw):
        if self._mine(path):
            self.opens += 1
            if path not in self.files:
                raise FileNotFoundError(2, 'No such file or directory', path)
            data = self.files[path][0]
            if 'b' in mode:
                return io.BytesIO(data)
            return io.StringIO(data.decode(kw.get('encoding') or 'utf-8'))
        return _real_open(path, mode, *a, **kw)

    def isfile(self, path):
        if self._mine(path):
            return path in self.files
        return _real_isfile(path)

    def getsize(self, path):
        if self._mine(path):
            return len(self.files[path][0])
        return _real_getsize(path)

    def getmtime(self, path):
        if self._mine(path):
            return self.files[path][1]
        return _real_getmtime(path)


_real_open = open
_real_isfile = os.path.isfile
_real_getsize = os.path.getsize
_real_getmtime = os.path.getmtime
_fs = SimFS()

# --------------------------------------------------------------------------
_installed = False
_saved = {}
_DT_MODULES = ('pgpy.pgp', 'pgpy.packet.packets', 'pgpy.packet.subpackets.signature')
_OPEN_MODULES = ('pgpy.types', 'pgpy.pgp')


def install():
    global _installed
    if _installed:
        return
    import importlib
    import pgpy  # noqa: F401  (from /repo)
    for name in _DT_MODULES:
        m = importlib.import_module(name)
        _saved[(name, 'datetime')] = m.datetime
        m.datetime = SimDateTime
    os.urandom = lambda n: _random.urandom(n)
    fields = importlib.import_module('pgpy.packet.fields')
    for k, v in _make_proxies().items():
        _saved[('fields', k)] = getattr(fields, k)
        setattr(fields, k, v)
    for name in _OPEN_MODULES:
        m = importlib.import_module(name)
        m.open = lambda *a, **kw: _fs.open(*a, **kw)
    os.path.isfile = lambda p: _fs.isfile(p)
    os.path.getsize = lambda p: _fs.getsize(p)
    os.path.getmtime = lambda p: _fs.getmtime(p)
    _installed = True


def uninstall():
    global _installed
    if not _installed:
        return
    import importlib
    for name in _DT_MODULES:
        importlib.import_module(name).datetime = _saved[(name, 'datetime')]
    os.urandom = _real_urandom
    fields = importlib.import_module('pgpy.packet.fields')
    for k in ('rsa', 'dsa', 'ec', 'ed25519', 'x25519'):
        setattr(fields, k, _saved[('fields', k)])
    for name in _OPEN_MODULES:
        m = importlib.import_module(name)
        if 'open' in m.__dict__:
            del m.__dict__['open']
    os.path.isfile = _real_isfile
    os.path.getsize = _real_getsize
    os.path.getmtime = _real_getmtime
    _installed = False


def reset(run_seed, start_us=1_600_000_000_000_000):
    """Fresh simulated environment for one run."""
    global _clock, _random, _fs
    _clock.__init__(start_us)
    _random.__init__(run_seed)
    _fs.__init__()
    return _clock, _random, _fs


def clock():
    return _clock


def rnd():
    return _random


def fs():
    return _fs


def set_s2k_count(coded):
    """The process-global S2K work knob (PGPy fixes it at 255)."""
    from pgpy.constants import HashAlgorithm
    for h in HashAlgorithm:
        h._tuned_count = coded
