"""Determinism self-tests (D1-D4 of DESIGN.md 2.7).

  ./check selftest determinism <PROP> [n]   D1: n run indices executed twice in fresh interpreters, digests equal
                                            D2: again with another worker count / slicing
                                            D3: replayed from the written step list instead of from the seed
                                            D4: under another PYTHONHASHSEED (reported, differences allowed only if
                                                the property module declares HASHSEED_SENSITIVE)
exit 0 ok, exit 2 mismatch (harness error; never a VIOLATION)
"""
import json
import os
import sys

from . import core
from . import runner


def _digests(prop, tier, base_seed, n, workers, known=()):
    b = runner.Batch(prop, tier, base_seed, n, 600, set(known), nworkers=workers).run()
    if b.errors:
        raise core.HarnessError('; '.join(b.errors[:3]))
    return {r['index']: (r['digest'], r['violation'] and r['violation']['signature'], r['known'] and r['known']['signature'],
                         r['harness_error'] and r['harness_error'][-300:]) for r in b.results}, b


def determinism(prop, n):
    base_seed = int(os.environ.get('VERIF_SEED', '0') or 0)
    masked = set()
    from . import findings
    for f in findings.load(prop):
        if f.get('status') == 'open':
            masked.add(f['signature'])
    a, ba = _digests(prop, 'quick', base_seed, n, 16, masked)
    b, _ = _digests(prop, 'quick', base_seed, n, 16, masked)
    c, _ = _digests(prop, 'quick', base_seed, n, 5, masked)
    bad = 0
    for i in sorted(a):
        if a[i] != b.get(i) or a[i] != c.get(i):
            bad += 1
            if bad <= 5:
                print('MISMATCH index %d: %r / %r / %r' % (i, a[i], b.get(i), c.get(i)))
    herr = [i for i in a if a[i][3]]
    print('D1/D2 %s: %d indices, two 16-worker batches and one 5-worker batch: %d mismatches, %d harness errors' % (prop, len(a), bad, len(herr)))
    for i in herr[:3]:
        print(' harness error at index', i, a[i][3])
    # D3: replay from the step list
    import tempfile
    os.makedirs(runner.REPLAYS, exist_ok=True)
    bad3 = 0
    m = min(n, 24)
    for i in range(m):
        case = core.generate_case(prop, 'quick', base_seed, i)
        case['masked'] = sorted(masked)
        p = os.path.join(runner.REPLAYS, 'selftest-%s-%d.json' % (prop, i))
        with open(p, 'w') as f:
            json.dump(case, f)
        _, res = runner.replay_file(p)
        os.unlink(p)
        if res['digest'] != a[i][0]:
            bad3 += 1
            print('D3 MISMATCH index %d: batch %s replay %s' % (i, a[i][0][:16], res['digest'][:16]))
    print('D3 %s: %d cases replayed from their step lists: %d mismatches' % (prop, m, bad3))
    # D4: another hash seed for class-0 indices
    mod = core.load_prop(prop)
    bad4 = 0
    m4 = 0
    for i in range(0, min(n, 48), len(core.ENV_CLASSES)):
        case = core.generate_case(prop, 'quick', base_seed, i)
        case['masked'] = sorted(masked)
        case['env'] = {'PYTHONHASHSEED': 424242, 'TZ': 'Pacific/Chatham'}
        p = os.path.join(runner.REPLAYS, 'selftest4-%s-%d.json' % (prop, i))
        with open(p, 'w') as f:
            json.dump(case, f)
        _, res = runner.replay_file(p)
        os.unlink(p)
        m4 += 1
        if res['digest'] != a[i][0]:
            bad4 += 1
    sens = getattr(mod, 'HASHSEED_SENSITIVE', False)
    print('D4 %s: %d cases under PYTHONHASHSEED=424242 TZ=Pacific/Chatham: %d differ (module declares hash-order sensitivity: %s)'
          % (prop, m4, bad4, sens))
    ok = bad == 0 and bad3 == 0 and not herr and (bad4 == 0 or sens)
    return 0 if ok else 2


def main(argv):
    if len(argv) >= 3 and argv[1] == 'determinism':
        n = int(argv[3]) if len(argv) > 3 else 160
        rc = 0
        for prop in argv[2].split(','):
            rc = max(rc, determinism(prop.upper(), n))
        return rc
    print(__doc__)
    return 2
