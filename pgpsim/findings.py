"""Known findings: committed list, never written at run time."""
import json
import os

from . import core

PATH = os.path.join(core.VERIF, 'known_findings.json')


def load(prop=None):
    if not os.path.exists(PATH):
        return []
    with open(PATH) as f:
        data = json.load(f)
    ents = data.get('findings', [])
    if prop is not None:
        ents = [e for e in ents if e.get('property') == prop]
    return ents
