import sys


def main(argv):
    if len(argv) >= 2 and argv[1] == 'selftest':
        from . import selftest
        return selftest.main(argv[1:])
    if len(argv) >= 2 and argv[1] == 'setup':
        from . import setup_check
        return setup_check.main(argv[1:])
    from . import runner
    return runner.main(argv)
