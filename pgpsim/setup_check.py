"""setup_cmd: verify that everything the checks need is on disk (nothing is fetched or built)."""
import hashlib
import os
import sys

from . import core

POOL_SHA = 'd5d3f49d0c2234d022b5de1c4db2308bffda38e00919edbc6e26f2c200c534fe'


def main(argv):
    import pgpy
    assert os.path.realpath(pgpy.__file__).startswith(os.path.realpath(core.REPO)), pgpy.__file__
    import cryptography
    p = os.path.join(core.VERIF, 'pgpsim', 'pool', 'keys.json')
    h = hashlib.sha256(open(p, 'rb').read()).hexdigest()
    assert h == POOL_SHA, 'key pool hash mismatch'
    os.makedirs(os.path.join(core.VERIF, 'out'), exist_ok=True)
    os.makedirs(os.path.join(core.VERIF, 'evidence'), exist_ok=True)
    try:
        from .ref import anchors
    except ImportError:
        anchors = None
    if anchors is not None:
        n = anchors.run(verbose='-v' in argv)
        print('reference-peer anchors: %d checks passed' % n)
    print('setup ok: pgpy from %s, cryptography %s, python %s' % (os.path.dirname(pgpy.__file__), cryptography.__version__, sys.version.split()[0]))
    return 0
