"""Encrypting / decrypting parties for C03, C04, C13.

Recipient keys are real PGPy keys (primary able to sign + one encryption component,
which is either the RSA primary itself or an RSA/ECDH subkey).  The reference peer
learns a recipient's secret numbers only through the exported secret key octets."""
import datetime

from . import bridge, seams, world
from .ref import algo as ralgo, armor as rarmor, enc as renc, keys as rkeys, sigs as rsigs, tkey as rtkey
from .ref.wire import WireError, encode_packet, split_packets

CIPHERS = [2, 3, 4, 7, 8, 9, 11, 12, 13]
ENC_KINDS = ['cv25519'] * 5 + ['ecdh_p256', 'ecdh_p256', 'ecdh_p384', 'ecdh_p521', 'ecdh_secp256k1', 'rsa2048', 'rsa_primary']
PASSPHRASES = ['correct horse', 'pässwörd ☃', 'x', 'a' * 100, '']
BODIES = ['empty', 'text', 'utf8', 'binary', 'zeros', 'incompressible', 'big']


def gen_recipients(rng, n=None, heavy=0.1):
    n = n or rng.choice([1, 2, 2, 3])
    keys = {}
    for i in range(n):
        kind = rng.choice(ENC_KINDS)
        if kind.startswith('rsa') and rng.random() > heavy * 4:
            kind = 'cv25519'
        if kind == 'rsa_primary':
            spec = {'alg': rng.choice(['rsa2048', 'rsa2048', 'rsa1024', 'rsa3072']), 'usage': 'CSE', 'subkeys': []}
        else:
            subs = [{'alg': kind, 'usage': 'E'}]
            if rng.random() < 0.25:
                subs.append({'alg': rng.choice(['cv25519', 'ecdh_p256']), 'usage': 'E'})
            spec = {'alg': rng.choice(['ed25519', 'ed25519', 'p256']), 'usage': 'CS', 'subkeys': subs}
        if rng.random() < 0.18:
            # a recipient key made by another implementation: ECDH subkey whose KDF parameters are not PGPy's per-curve
            # defaults (RFC 6637 lets the key owner choose them)
            spec = {'foreign': True, 'alg': 'ed25519', 'usage': 'CS', 'curve': rng.choice(['cv25519', 'cv25519', 'ecdh_p256', 'ecdh_p384', 'ecdh_p521']),
                    'kdf': rng.choice([[8, 7], [10, 9], [9, 8], [10, 7], [8, 9], [9, 9]]), 'subkeys': []}
        spec['uids'] = [['Recipient %d' % i, '', 'r%d@example.org' % i]]
        spec['created_us'] = 1_450_000_000_000_000 + i * 1_000_000
        keys['r%d' % i] = spec
    return keys


def gen_message_spec(rng, big_ok=False):
    kind = rng.choice(BODIES if big_ok else BODIES[:-1])
    size = rng.choice([0, 1, 5, 64, 191, 192, 500, 8383, 8384, 20000]) if kind not in ('empty',) else 0
    if kind == 'big':
        size = rng.choice([65535, 65536, 300000, 1 << 20])
    return {'body': kind, 'size': size, 'seed': rng.randrange(1 << 30),
            'compression': rng.choice([0, 1, 2, 3]), 'format': rng.choice([None, None, 'b', 't', 'u']),
            'sensitive': rng.random() < 0.08, 'file': rng.random() < 0.12,
            'filename': rng.choice(['note.txt', 'a', 'x' * 60, 'report-2020.pdf']), 'mtime': rng.choice([0, 1, 1_500_000_000, 2 ** 31 - 1])}


def body_octets(spec):
    import random as _r
    r = _r.Random(spec['seed'])
    k, n = spec['body'], spec['size']
    if spec.get('bom') and k in ('text', 'utf8'):
        # a text that opens with U+FEFF (files written "UTF-8 with signature"): three content octets like any other
        return b'\xef\xbb\xbf' + body_octets(dict(spec, bom=False))
    if k == 'empty' or n == 0:
        return b''
    if k == 'text':
        words = ['alpha', 'beta', 'gamma', 'delta', '\n', ' ', 'the', 'quick', 'brown', 'fox']
        s = ''
        while len(s) < n:
            s += r.choice(words) + r.choice([' ', ' ', '\n'])
        return s[:n].encode('ascii')
    if k == 'utf8':
        words = ['grüße', 'naïve', '☃', 'señor', '日本', ' ', '\n', 'plain']
        s = ''
        while len(s.encode('utf-8')) < n:
            s += r.choice(words)
        return s.encode('utf-8')
    if k == 'zeros':
        return bytes(n)
    if k in ('binary', 'incompressible', 'big'):
        return bytes(r.getrandbits(8) for _ in range(min(n, 4096))) * (n // 4096 + 1) if k != 'incompressible' else \
            r.randbytes(n)
    return b''


def make_message(pgpy, spec):
    """Build the PGPMessage through the public API; returns (message, content octets as given)."""
    data = body_octets(spec)
    if spec['body'] in ('binary', 'big'):
        data = data[:spec['size']]
    C = pgpy.constants
    kw = {'compression': C.CompressionAlgorithm(spec['compression'])}
    fmt = spec.get('format')
    if spec['body'] in ('binary', 'zeros', 'incompressible', 'big') and fmt in ('t', 'u'):
        fmt = 'b'
    if fmt:
        kw['format'] = fmt
    if spec.get('sensitive'):
        kw['sensitive'] = True
    if spec.get('file'):
        path = seams.SimFS.ROOT + spec['filename']
        seams.fs().write(path, data, spec['mtime'])
        return pgpy.PGPMessage.new(path, file=True, **kw), data
    arg = data
    if spec['body'] in ('text', 'utf8') and fmt in (None, 'u') and spec['seed'] % 2:
        arg = data.decode('utf-8')
    return pgpy.PGPMessage.new(arg, **kw), data


class Recipients(object):
    def __init__(self, cfg, label='enc'):
        self.keys = {}
        for name in sorted(cfg):
            if cfg[name].get('foreign'):
                self.keys[name] = self._foreign(cfg[name], label + name)
            else:
                self.keys[name] = world.build_key(cfg[name], label + name)
        self.cfg = cfg

    @staticmethod
    def _foreign(spec, label):
        import pgpy
        created = spec['created_us'] // 1_000_000
        rs = seams.rnd().run_seed
        pb, palg, psec = rkeys.gen_key('ed25519', created, seams.derive(rs, 'foreign:' + label, 'primary', 32))
        sb, salg, ssec = rkeys.gen_key(spec['curve'], created, seams.derive(rs, 'foreign:' + label, 'sub', 72 if spec['curve'] != 'cv25519' else 32),
                                       kdf=spec['kdf'])
        tkb = bridge.build_ref_tkey(pb, palg, psec, ('%s <%s@example.org>' % (spec['uids'][0][0], label)).encode(), created,
                                    secret_export=True, subkeys=[(sb, salg, ssec, 0x0C)])
        return pgpy.PGPKey.from_blob(tkb)[0]

    def ref_secrets(self, name):
        """(PubKey, secret) for every component of the key, via the exported secret octets."""
        out = []
        tk = rtkey.parse_keys(bytes(self.keys[name]))[0]
        if tk.sec is not None and tk.sec.usage == 0:
            out.append((tk.pub, tk.sec.secret))
        for c in tk.subkeys:
            if c.sec is not None and c.sec.usage == 0:
                out.append((c.key, c.sec.secret))
        return out


def pgpy_encrypt(pgpy, msg, recips, recipients, cipher, sessionkey=None, s2k_hash=8):
    """recips: list of ('key', name) / ('pass', passphrase).  Applies them in order, sharing one
    session key the way the PGPy documentation prescribes for several recipients."""
    C = pgpy.constants
    ciph = C.SymmetricKeyAlgorithm(cipher)
    sk = sessionkey
    if sk is None and len(recips) > 1:
        sk = ciph.gen_key()
    enc = msg
    for kind, who in recips:
        if kind == 'key':
            enc = recipients.keys[who].pubkey.encrypt(enc, cipher=ciph, sessionkey=sk)
        else:
            enc = enc.encrypt(who, sessionkey=sk, cipher=ciph, hash=C.HashAlgorithm(s2k_hash))
    return enc, sk


def ref_inner(enc_bytes, passphrase=None, recips=()):
    """Reference decryption of an exported encrypted message -> (inner octets, info)."""
    return renc.decrypt_message(enc_bytes, passphrase, recips)


def strip_mdc(msg_bytes):
    """PGPy keeps the MDC packet of a decrypted message and re-emits it next to the literal data;
    comparisons of content/metadata/signatures look through that (its legality is C20's question)."""
    out = bytearray()
    for p in split_packets(msg_bytes):
        if p.tag == 19:
            continue
        if p.tag == 8:
            inner = strip_mdc(renc.decompress(p.body))
            out += encode_packet(8, renc.compress(p.body[0], inner))
        else:
            out += p.raw
    return bytes(out)


def shape_of(msg_bytes, drop_mdc=False):
    """Reference-peer description of an (unencrypted) message export for comparisons."""
    if drop_mdc:
        try:
            msg_bytes = strip_mdc(msg_bytes)
        except Exception as e:          # a "decrypted" message that is not even a packet sequence
            return {'errors': ['framing: %s' % e], 'compression': None, 'fmt': None, 'filename': None, 'mtime': None,
                    'data': None, 'sigs': [], 'nops': 0}
    sh = renc.recognise(msg_bytes)
    lit = sh.literal
    return {'errors': list(sh.errors), 'compression': sh.compression if sh.kind == 'compressed' else None,
            'fmt': lit.fmt if lit else None, 'filename': lit.filename if lit else None, 'mtime': lit.mtime if lit else None,
            'data': lit.data if lit else None, 'sigs': sorted(sh.sigs), 'nops': len(sh.ops)}
