"""Signing parties for the signature properties (C01, C02, C17, C18 ...).

A SigWorld holds 2-4 PGPy private keys (primary + optional signing / encryption
subkeys, several identities incl. an image attribute) built under the simulated
clock and random source.  `produce(step)` runs one signing operation through the
real PGPy API and returns an Artifact: nothing but exported octets plus a
description of the subject, which is what travels over the (faulty) channel and
what the reference peer sees.  `pgpy_verify(artifact)` re-imports everything from
octets on the verifier's side and calls PGPKey.verify.
"""
import datetime

from . import bridge, seams, world
from .ref import armor as rarmor, enc as renc, keys as rkeys, sigs as rsigs, tkey as rtkey
from .ref.wire import WireError, encode_packet, split_packets

HASHNAMES = {1: 'MD5', 2: 'SHA1', 3: 'RIPEMD160', 8: 'SHA256', 9: 'SHA384', 10: 'SHA512', 11: 'SHA224'}
SIGN_KINDS = ('doc', 'text', 'timestamp', 'msg', 'cleartext', 'cert_self', 'cert_other', 'uattr_cert', 'direct_other',
              'direct_self', 'bind', 'revoke_key', 'revoke_subkey', 'revoke_uid', 'revoker', 'attest')

UIDS = [['Alice', '', 'alice@example.org'], ['Alice Work', 'work', 'alice@corp.example'], ['Bob', '', 'bob@example.org'],
        ['Björn Ünïcode', 'ß', 'bjorn@example.org'], ['Carol (the) Danvers', '', 'c@example.org'], ['Dave', 'home', ''],
        ['', '', ''],            # the empty user id (RFC 4880 5.11 sets no minimum)
        ['Zoe\u0308 \u212bngstro\u0308m', '', 'z@example.org']]          # valid UTF-8, not in a composed normal form


def gen_keys(rng, n=None, algs=None, heavy=0.12):
    """Config for a universe of signing keys."""
    n = n or rng.choice([2, 2, 3])
    keys = {}
    for i in range(n):
        r = rng.random()
        if algs:
            alg = rng.choice(algs)
        elif r < heavy:
            alg = rng.choice(['rsa2048', 'rsa1024', 'rsa3072', 'dsa2048', 'dsa1024', 'rsa2050', 'rsa2050'])
        else:
            alg = rng.choice(['ed25519', 'ed25519', 'ed25519', 'p256', 'p384', 'p521', 'secp256k1'])
        subkeys = []
        if rng.random() < 0.6:
            subkeys.append({'alg': rng.choice(['ed25519', 'p256', 'ed25519']), 'usage': 'S'})
        if rng.random() < 0.5:
            subkeys.append({'alg': rng.choice(['cv25519', 'ecdh_p256']), 'usage': 'E'})
        uids = rng.sample(UIDS, rng.choice([1, 2, 2, 3]))
        if rng.random() < 0.3:
            uids.append({'image': True, 'extra_subpackets': rng.random() < 0.4})
        keys['k%d' % i] = {'alg': alg, 'uids': uids, 'subkeys': subkeys, 'revoked': rng.random() < 0.2,
                           'revoked_subkeys': [0] if subkeys and rng.random() < 0.2 else [],
                           'usage': rng.choice(['CS', 'CS', 'CS', 'C']) if subkeys and subkeys[0]['usage'] == 'S' else 'CS',
                           'created_us': 1_400_000_000_000_000 + rng.choice([0, 1, 86400 * 400]) * 1_000_000,
                           'reframed': rng.random() < 0.2}
    return keys


def gen_sign_step(rng, sid, knames, full_options=False):
    """One signing operation, fully resolved."""
    kind = rng.choice(['doc', 'doc', 'text', 'timestamp', 'msg', 'msg', 'cleartext', 'cert_self', 'cert_other', 'cert_other',
                       'uattr_cert', 'direct_other', 'direct_self', 'bind', 'revoke_key', 'revoke_subkey', 'revoke_uid',
                       'revoker', 'attest'])
    st = {'id': sid, 'op': 'sign', 'kind': kind, 'key': rng.choice(knames), 'hash': rng.choice([8, 8, 8, 10, 9, 11, 2, 1])}
    other = [k for k in knames if k != st['key']] or knames
    st['target'] = rng.choice(other)
    st['uid_index'] = rng.randrange(3)
    st['sub_index'] = rng.randrange(2)
    st['level'] = rng.choice([0x10, 0x11, 0x12, 0x13])
    if kind in ('doc', 'msg'):
        st['data'] = bytes(rng.randrange(256) for _ in range(rng.choice([0, 1, 2, 16, 200, 1000]))).hex()
        if rng.random() < 0.3:
            st['data'] = rng.choice([b'x', b'x\n', b'a\r\nb', b'a\nb', b'hello world', b'']).hex()
    if kind in ('text', 'cleartext'):
        st['text'] = rng.choice(['', 'x', 'x\n', 'line one\nline two\n', 'a\r\nb\r\n', '- dash\n-- more', 'From me\nto you',
                                 'ünï\ncödé ☃', 'tab\there', 'no newline at end', 'trailing \r\nblanks\t \r\nover crlf\r\n',
                                 'mixed \nendings\t\r\nwith blanks \t\n', 'blank at end of text  ', 'pay 100? to bob', 'what? 价格 ?'])
    if kind == 'msg':
        st['nsigners'] = rng.choice([1, 1, 2, 3])
        st['compression'] = rng.choice([0, 1, 2, 3])
    opts = {}
    if full_options or rng.random() < 0.35:
        for name, p in (('expires_s', 0.2), ('notation', 0.25), ('policy_uri', 0.15), ('revocable_false', 0.15), ('user', 0.1),
                        ('created_offset_s', 0.2), ('no_issuer_fpr', 0.2), ('intended', 0.1)):
            if rng.random() < p:
                if name == 'expires_s':
                    opts[name] = rng.choice([1, 3600, 86400 * 30, 2 ** 31])
                elif name == 'notation':
                    opts[name] = rng.choice([{'a@example.org': 'v'}, {'k@example.org': 'v1', 'k2@example.org': ''},
                                             {'bin@example.org': {'hex': '00ff10'}}, {'u@example.org': 'café ☃'},
                                             {'ü@example.org': 'x'}, {'long@example.org': 'v' * 200},
                                             {'a@example.org': 'x' * 170, 'b@example.org': 'y' * 9000}])
                elif name == 'policy_uri':
                    opts[name] = rng.choice(['https://example.org/policy', 'http://x/', 'https://example.org/üñï',
                                             'https://example.org/' + 'p' * 190, 'https://example.org/' + 'q' * 9000])
                elif name == 'created_offset_s':
                    opts[name] = rng.choice([-86400, -1, 0, 1, 3600])
                    if rng.random() < 0.3:
                        opts['created_naive'] = True
                else:
                    opts[name] = True
        if kind in ('cert_self', 'direct_self', 'uattr_cert', 'bind'):
            for name, p in (('usage', 0.4), ('ciphers', 0.3), ('hashes', 0.3), ('compression', 0.3), ('key_expiration_s', 0.2),
                            ('keyserver', 0.15), ('keyserver_flags', 0.15), ('primary', 0.25), ('exportable', 0.2)):
                if rng.random() < p:
                    if name == 'usage':
                        opts[name] = rng.choice(['CS', 'C', 'CSE', 'S', 'CA', 'ET'])
                    elif name == 'ciphers':
                        opts[name] = rng.sample([9, 8, 7, 2, 3, 11, 13], rng.randint(0, 4))
                    elif name == 'hashes':
                        opts[name] = rng.sample([8, 9, 10, 11, 2], rng.randint(1, 4))
                    elif name == 'compression':
                        opts[name] = rng.sample([0, 1, 2, 3], rng.randint(0, 4))
                    elif name == 'key_expiration_s':
                        opts[name] = rng.choice([86400 * 365 * 40, 86400 * 365 * 60])
                    elif name == 'keyserver':
                        opts[name] = rng.choice(['hkp://keys.example.org', 'hkp://schlüssel.example.org', 'hkp://' + 'k' * 200 + '.example.org'])
                    elif name == 'primary':
                        opts[name] = rng.choice([True, False])
                    elif name == 'exportable':
                        opts[name] = rng.choice([True, False])
                    else:
                        opts[name] = True
        if kind in ('cert_other', 'direct_other'):
            if rng.random() < 0.3:
                opts['trust'] = [rng.choice([0, 1, 2, 255]), rng.choice([0, 60, 120, 255])]
                if rng.random() < 0.5:
                    opts['regex'] = rng.choice(['<[^>]+[@.]example\\.org>$', '<[^>]+[@.]exämple\\.org>$'])
            if rng.random() < 0.3:
                opts['exportable'] = rng.choice([True, False])
        if kind.startswith('revoke'):
            opts['reason'] = rng.choice([0, 1, 2, 3, 32])
            opts['comment'] = rng.choice(['', 'no longer used', 'compromised!', 'schlüssel verloren ☹', 'because ' * 30])
    st['opts'] = opts
    return st


class Artifact(object):
    """What leaves the signer: octets only."""

    def __init__(self, kind):
        self.kind = kind
        self.sig = None            # bytes: one signature packet (detached kinds)
        self.verifier = None       # bytes: export of the public key that verifies
        self.subject = None        # dict, see SigWorld.produce
        self.signer_name = None
        self.nsigs = 1

    def copy(self):
        a = Artifact(self.kind)
        a.sig, a.verifier, a.signer_name, a.nsigs = self.sig, self.verifier, self.signer_name, self.nsigs
        a.subject = dict(self.subject)
        return a


def _with_extra_uattr_subpackets(pgpy, key, ctx):
    """The same key with a user attribute that holds more than its image subpacket (legal under RFC 4880 5.12, written by
    other implementations, never by PGPy): the attribute packet is rewritten on the wire, its now stale self-certification is
    dropped, the key re-imported and the attribute certified anew through the public API."""
    from .ref.wire import encode_subpacket
    out = bytearray()
    skip_sigs = False
    for p in split_packets(bytes(key)):
        if p.tag == 17:
            # the image, a private-use subpacket, and a second image (the first one with its last octet changed)
            out += encode_packet(17, p.body + encode_subpacket(101, b'private-use attribute data') + p.body[:-1] + b'\x00')
            skip_sigs = True
            continue
        if p.tag == 2 and skip_sigs:
            continue
        if p.tag != 2:
            skip_sigs = False
        out += p.raw
    k2 = pgpy.PGPKey.from_blob(bytes(out))[0]
    for ua in k2.userattributes:
        ua |= k2.certify(ua, pgpy.constants.SignatureType.Positive_Cert)
    ctx.probe('uattr_multi_subpacket')
    return k2


class SigWorld(object):
    def __init__(self, keys_cfg, ctx, label=''):
        import pgpy
        self.pgpy = pgpy
        self.ctx = ctx
        self.keys = {}
        for name in sorted(keys_cfg):
            k = world.build_key(keys_cfg[name], label + name)
            if any(isinstance(u, dict) and u.get('extra_subpackets') for u in keys_cfg[name].get('uids', [])):
                k = _with_extra_uattr_subpackets(pgpy, k, ctx)
            if keys_cfg[name].get('reframed'):
                # the key as another producer frames it: every packet under a five-octet new-format length, kept so in memory
                k = pgpy.PGPKey.from_blob(b''.join(encode_packet(p.tag, p.body, 'new', 5) for p in split_packets(bytes(k))))[0]
                ctx.probe('key_loaded_from_five_octet_lengths')
            # key states a verifier meets in the wild: revoked primaries / subkeys (advisory in PGPy)
            try:
                subs = list(k.subkeys.values())
                for i in keys_cfg[name].get('revoked_subkeys', []):
                    if i < len(subs):
                        subs[i] |= k.revoke(subs[i])
                if keys_cfg[name].get('revoked'):
                    k |= k.revoke(k)
            except Exception as e:      # pragma: no cover
                ctx.event('keystate', name, type(e).__name__)
            self.keys[name] = k
        self.cfg = keys_cfg

    # ------------------------------------------------------------------
    def _opts(self, st, key):
        C = self.pgpy.constants
        o = st.get('opts', {})
        kw = {}
        if st.get('hash'):
            kw['hash'] = C.HashAlgorithm(st['hash'])
        if 'expires_s' in o:
            kw['expires'] = datetime.timedelta(seconds=o['expires_s'])
        if 'notation' in o:
            kw['notation'] = {k: (bytearray(bytes.fromhex(v['hex'])) if isinstance(v, dict) else v) for k, v in o['notation'].items()}
        if 'policy_uri' in o:
            kw['policy_uri'] = o['policy_uri']
        if o.get('revocable_false'):
            kw['revocable'] = False
        if o.get('user'):
            kw['user'] = key.userids[0].name
        if 'created_offset_s' in o:
            kw['created'] = seams.clock().dt().replace(microsecond=0) + datetime.timedelta(seconds=o['created_offset_s'])
            if o.get('created_naive'):
                # the same instant as a naive datetime (fields in UTC): PGPy warns and reads it so
                kw['created'] = kw['created'].replace(tzinfo=None)
        if o.get('no_issuer_fpr'):
            kw['include_issuer_fingerprint'] = False
        if o.get('intended'):
            kw['intended_recipients'] = [k.pubkey for k in self.keys.values()][:2]
        if 'usage' in o:
            kw['usage'] = world.flags_from(o['usage'])
        if 'ciphers' in o:
            kw['ciphers'] = [C.SymmetricKeyAlgorithm(x) for x in o['ciphers']]
        if 'hashes' in o:
            kw['hashes'] = [C.HashAlgorithm(x) for x in o['hashes']]
        if 'compression' in o:
            kw['compression'] = [C.CompressionAlgorithm(x) for x in o['compression']]
        if 'key_expiration_s' in o:
            kw['key_expiration'] = datetime.timedelta(seconds=o['key_expiration_s'])
        if 'keyserver' in o:
            kw['keyserver'] = o['keyserver']
        if o.get('keyserver_flags'):
            kw['keyserver_flags'] = {C.KeyServerPreferences.NoModify}
        if 'primary' in o:
            kw['primary'] = o['primary']
        if 'exportable' in o:
            kw['exportable'] = o['exportable']
        if 'trust' in o:
            kw['trust'] = tuple(o['trust'])
        if 'regex' in o:
            kw['regex'] = o['regex']
        if 'reason' in o:
            kw['reason'] = C.RevocationReason(o['reason'])
        if 'comment' in o:
            kw['comment'] = o['comment']
        return kw

    def produce(self, st):
        """Run one signing operation.  Returns Artifact or None (operation not applicable /
        refused by PGPy - never a violation here)."""
        pgpy = self.pgpy
        C = pgpy.constants
        if st['key'] not in self.keys:
            return None
        key = self.keys[st['key']]
        kind = st['kind']
        kw = self._opts(st, key)
        art = Artifact(kind)
        art.signer_name = st['key']
        tgt = self.keys.get(st.get('target')) or key
        try:
            self.last_live = None
            if kind == 'doc':
                data = bytes.fromhex(st['data'])
                sig = key.sign(data, **kw)
                if st.get('uid_index') == 1:
                    # the document padded so that the whole hash input (document, signature header and hashed area, six-octet
                    # trailer) is an exact multiple of a buffer or hash block size
                    body = split_packets(bytes(sig))[0].body
                    hl = int.from_bytes(body[4:6], 'big')
                    blk = [4096, 4096, 1024, 128][(st.get('level', 0) + st.get('sub_index', 0)) % 4]
                    data = data + b'\xa5' * (-(len(data) + 6 + hl + 6) % blk)
                    sig = key.sign(data, **kw)
                    self.ctx.probe('hash_input_multiple_of_%d' % blk)
                art.subject = {'t': 'doc', 'data': data}
                self.last_live = (data, sig)
            elif kind == 'text':
                sig = key.sign(st['text'], **kw)
                art.subject = {'t': 'doc', 'data': st['text'].encode('utf-8'), 'as_str': True}
                self.last_live = (st['text'], sig)
            elif kind == 'timestamp':
                sig = key.sign(None, **kw)
                art.subject = {'t': 'none'}
                self.last_live = (None, sig)
            elif kind == 'msg':
                msg = pgpy.PGPMessage.new(bytes.fromhex(st['data']), compression=C.CompressionAlgorithm(st.get('compression', 0)),
                                          format='b')
                signers = [key] + [k for n, k in sorted(self.keys.items()) if n != st['key']][:st.get('nsigners', 1) - 1]
                if st.get('cosign_subkey'):
                    # the same certificate signs twice: its signing subkey first, then the primary key
                    subs = [sk for sk in key.subkeys.values() if sk.key_algorithm.can_sign]
                    if subs:
                        msg |= subs[0].sign(msg, **kw)
                        self.ctx.probe('message_cosigned_by_own_subkey')
                for s in signers:
                    msg |= s.sign(msg, **kw)
                art.subject = {'t': 'msg', 'bytes': bytes(msg)}
                art.nsigs = len(signers)
                art.verifier = bytes(key.pubkey)
                art.signers = [bytes(s.pubkey) for s in signers]
                return art
            elif kind == 'cleartext':
                msg = pgpy.PGPMessage.new(st['text'], cleartext=True)
                msg |= key.sign(msg, **kw)
                art.subject = {'t': 'cleartext', 'armored': str(msg)}
                art.verifier = bytes(key.pubkey)
                return art
            elif kind in ('cert_self', 'cert_other', 'uattr_cert', 'revoke_uid', 'attest'):
                owner = tgt if kind == 'cert_other' else key
                ids = owner.userids if kind != 'uattr_cert' else owner.userattributes
                if not ids:
                    return None
                uid = ids[st.get('uid_index', 0) % len(ids)]
                if kind == 'revoke_uid':
                    sig = key.revoke(uid, **kw)
                elif kind == 'attest':
                    others = [k for n, k in sorted(self.keys.items()) if n != st['key']]
                    certs = [o.certify(uid, C.SignatureType.Generic_Cert) for o in others[:2]]
                    sig = key.certify(uid, C.SignatureType.Attestation, attested_certifications=certs, **kw)
                else:
                    sig = key.certify(uid, C.SignatureType(st.get('level', 0x10)), **kw)
                art.subject = {'t': 'uid', 'keybytes': bytes(owner.pubkey),
                               'uid': uid.userid.encode('utf-8') if uid.is_uid else None, 'image': bytes(uid.image) if uid.is_ua else None}
            elif kind in ('direct_other', 'direct_self', 'revoke_key', 'revoker'):
                owner = tgt if kind == 'direct_other' else key
                if kind == 'revoke_key':
                    sig = key.revoke(key, **kw)
                elif kind == 'revoker':
                    sig = key.revoker(tgt.pubkey, **{k: v for k, v in kw.items() if k != 'revocable'})
                elif kind == 'direct_self' and st.get('uid_index') == 2 and len(key.subkeys):
                    # a signature directly on a key (0x1F) whose subject is one of the key's subkeys: computed over that key alone
                    subs = list(key.subkeys.values())
                    sub = subs[st.get('sub_index', 0) % len(subs)]
                    sig = key.certify(sub, **{k: v for k, v in kw.items() if k in ('hash', 'created', 'notation', 'policy_uri', 'expires',
                                                                                    'revocable', 'include_issuer_fingerprint')})
                    self.ctx.probe('direct_signature_over_subkey')
                    art.subject = {'t': 'subkey_alone', 'keybytes': bytes(key.pubkey), 'subfp': bytes.fromhex(str(sub.fingerprint))}
                    art.sig = bytes(sig)
                    art.verifier = bytes(key.pubkey)
                    return art
                else:
                    sig = key.certify(owner.pubkey if kind == 'direct_other' else owner, **kw)
                art.subject = {'t': 'key', 'keybytes': bytes(owner.pubkey)}
            elif kind in ('bind', 'revoke_subkey'):
                subs = list(key.subkeys.values())
                if not subs:
                    return None
                sub = subs[st.get('sub_index', 0) % len(subs)]
                if kind == 'bind':
                    if 'usage' not in kw:
                        kw['usage'] = {C.KeyFlags.Sign} if sub.key_algorithm.can_sign else {C.KeyFlags.EncryptCommunications}
                    sig = key.bind(sub, **kw)
                else:
                    sig = key.revoke(sub, **kw)
                art.subject = {'t': 'subkey', 'keybytes': bytes(key.pubkey), 'subfp': bytes.fromhex(str(sub.fingerprint))}
            else:
                return None
        except Exception as e:
            self.ctx.event(st['id'], 'sign', kind, 'raised', type(e).__name__)
            return None
        art.sig = bytes(sig)
        art.verifier = bytes(key.pubkey)
        return art

    # ------------------------------------------------------------------
    def pgpy_verify(self, art, copies=False, verifier=None):
        """Verifier side: everything is re-imported from octets.  Returns the
        SignatureVerification (or raises whatever PGPy raises).  copies: the verifier works on copy.copy()
        of every object it parsed (callers pass objects around; a copy must judge like the original)."""
        import copy as _copy
        pgpy = self.pgpy
        cp = _copy.copy if copies else (lambda x: x)
        K = verifier if verifier is not None else cp(pgpy.PGPKey.from_blob(art.verifier)[0])
        s = art.subject
        if s['t'] == 'msg':
            return K.verify(cp(pgpy.PGPMessage.from_blob(s['bytes'])))
        if s['t'] == 'cleartext':
            return K.verify(cp(pgpy.PGPMessage.from_blob(s['armored'])))
        sig = cp(pgpy.PGPSignature.from_blob(art.sig))
        if s['t'] == 'doc':
            if s.get('str_override') is not None:
                return K.verify(s['str_override'], sig)
            return K.verify(s['data'].decode('utf-8') if s.get('as_str') else s['data'], sig)
        if s['t'] == 'none':
            return K.verify(None, sig)
        T = cp(pgpy.PGPKey.from_blob(s.get('keybytes_private') or s['keybytes'])[0])
        if s['t'] == 'key':
            return K.verify(T, sig)
        if s['t'] == 'uid':
            for u in (T.userids if s.get('uid') is not None else T.userattributes):
                if (s.get('uid') is not None and u.userid.encode('utf-8') == s['uid']) or \
                        (s.get('uid') is None and bytes(u.image) == s['image']):
                    return K.verify(u, sig)
            raise LookupError('uid not found in the presented key')
        if s['t'] in ('subkey', 'subkey_alone'):
            for sk in T.subkeys.values():
                if bytes.fromhex(str(sk.fingerprint)) == s['subfp']:
                    return K.verify(sk, sig)
            raise LookupError('subkey not found in the presented key')
        raise ValueError(s['t'])


# ---------------------------------------------------------------------------
# the reference peer's view of an artifact
# ---------------------------------------------------------------------------
class RefView(object):
    """For one artifact: list of entries (sig, signer PubKey or None, subject octets or None)."""

    def __init__(self):
        self.entries = []
        self.error = None


def ref_view(art, canonical=False):
    """canonical=True: key material enters the subject octets in canonical re-encoding (C01 decides
    'was the key changed' on decoded values, not on MPI bit-count spelling)."""
    v = RefView()
    pre = (lambda k: k.canonical_prefix()) if canonical else (lambda k: k.hash_prefix())
    try:
        vk = bridge.ref_tkey(art.verifier)
        s = art.subject
        if s['t'] == 'msg':
            sh = renc.recognise(s['bytes'])
            if sh.errors or sh.literal is None:
                v.error = 'message: %s' % sh.errors
                return v
            for b in sh.sigs + sh.prefix_sigs:
                sg = rsigs.parse_sig(b)
                v.entries.append((sg, bridge.find_signer(vk, sg), rsigs.subject_document(sg.type, sh.literal.data)))
            return v
        if s['t'] == 'cleartext':
            blk = rarmor.dearmor(s['armored'])
            if blk.cleartext is None:
                v.error = 'not a cleartext message'
                return v
            octs = rarmor.cleartext_signed_octets(blk.cleartext)
            for p in split_packets(blk.payload):
                sg = rsigs.parse_sig(p.body)
                v.entries.append((sg, bridge.find_signer(vk, sg), octs))
            return v
        sg = bridge.ref_sig(art.sig)
        signer = bridge.find_signer(vk, sg)
        if s['t'] == 'doc':
            subj = rsigs.subject_document(sg.type, s['data'])
        elif s['t'] == 'none':
            subj = b''
        else:
            tk = bridge.ref_tkey(s['keybytes'])
            if s['t'] == 'key':
                subj = pre(tk.pub)
            elif s['t'] == 'uid':
                comp = None
                for c in tk.uids:
                    if s.get('uid') is not None and c.kind == 'uid' and c.pkt.body == s['uid']:
                        comp = c
                    if s.get('uid') is None and c.kind == 'uattr' and s['image'] in c.pkt.body:
                        comp = c
                if comp is None:
                    v.error = 'uid not in key'
                    return v
                subj = pre(tk.pub) + (b'\xb4' if comp.kind == 'uid' else b'\xd1') + len(comp.pkt.body).to_bytes(4, 'big') + comp.pkt.body
            elif s['t'] == 'subkey':
                comp = [c for c in tk.subkeys if c.key.fingerprint == s['subfp']]
                if not comp:
                    v.error = 'subkey not in key'
                    return v
                subj = pre(tk.pub) + pre(comp[0].key)
            elif s['t'] == 'subkey_alone':
                comp = [c for c in tk.subkeys if c.key.fingerprint == s['subfp']]
                if not comp:
                    v.error = 'subkey not in key'
                    return v
                subj = pre(comp[0].key)
            else:
                raise ValueError(s['t'])
        v.entries.append((sg, signer, subj))
        if s['t'] == 'subkey' and sg.type == rsigs.T_SUBKEY_BIND:
            # the embedded primary-key binding (0x19) is made by the subkey over the same subject
            for e in sg.sub(rsigs.SP_EMBEDDED):
                es = rsigs.parse_sig(e.body)
                v.entries.append((es, comp[0].key, subj))
    except (WireError, rarmor.ArmorError, ValueError, IndexError, KeyError) as e:
        v.error = '%s: %s' % (type(e).__name__, e)
    return v


def ref_valid(entry):
    sg, signer, subj = entry
    if signer is None or subj is None:
        return False
    try:
        return rsigs.verify(sg, signer, subj)
    except (rkeys.KeyError_, Exception):
        return False


def entry_identity(entry):
    """What was signed, by whom: (signer fingerprint, RFC hash input, signature integers)."""
    sg, signer, subj = entry
    return (signer.fingerprint if signer is not None else None, rsigs.hash_input(sg, subj) if subj is not None else None,
            tuple(sg.mpis), sg.pkalg, sg.halg)
