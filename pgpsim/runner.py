"""Batch driver: ./check <ID> quick|thorough|--replay <file>

exit 0  property held on everything explored (KNOWN-FINDING lines allowed)
exit 1  VIOLATION property=<id> replay=<path>
exit 2  harness error (never printed as VIOLATION)
"""
import json
import os
import subprocess
import sys
import time

from . import core
from . import findings as _findings

PY = sys.executable
OUT = os.path.join(core.VERIF, 'out')
REPLAYS = os.path.join(OUT, 'replays')


def _worker_cmd(args):
    boot = ("import sys; sys.path[:0]=[%r,%r]; from pgpsim import worker; worker.main()"
            % (core.VERIF, core.REPO))
    return [PY, '-B', '-c', boot] + list(args)


def _worker_env(hs, tz):
    env = dict(os.environ)
    env['PYTHONHASHSEED'] = str(hs)
    env['TZ'] = tz
    env['PYTHONDONTWRITEBYTECODE'] = '1'
    env['PGPSIM_REPO'] = core.REPO
    env.pop('PYTHONPATH', None)
    return env


def run_worker(args, hs, tz, timeout):
    p = subprocess.run(_worker_cmd(args), env=_worker_env(hs, tz), capture_output=True, text=True, timeout=timeout)
    return p


class Batch(object):
    def __init__(self, prop, tier, base_seed, nruns, budget_s, known, nworkers=None, start=0):
        self.prop = prop
        self.tier = tier
        self.base_seed = base_seed
        self.nruns = nruns
        self.budget_s = budget_s
        self.known = known
        self.nworkers = nworkers or int(os.environ.get('PGPSIM_WORKERS', os.cpu_count() or 4))
        self.start = start
        self.results = []
        self.errors = []
        self.done = 0

    def tasks(self):
        k = len(core.ENV_CLASSES)
        per_class = {}
        for i in range(self.start, self.start + self.nruns):
            per_class.setdefault(i % k, []).append(i)
        ntasks_per_class = max(1, (self.nworkers * 3) // k)
        out = []
        for cls, idx in sorted(per_class.items()):
            n = min(ntasks_per_class, len(idx))
            for j in range(n):
                chunk = idx[j::n]
                if chunk:
                    _, hs, tz = core.env_for(self.base_seed, chunk[0])
                    out.append((hs, tz, chunk))
        # interleave classes so that all env classes progress together
        out.sort(key=lambda t: (t[2][0] // k) % 1000003)
        return out

    def run(self):
        tasks = self.tasks()
        t_end = time.monotonic() + self.budget_s
        running = []
        pending = list(tasks)
        hard = self.budget_s + 1000

        tmpdir = os.path.join(OUT, 'tmp', '%s-%d-%d' % (self.prop, os.getpid(), int(time.time() * 1000) % 100000000))
        os.makedirs(tmpdir, exist_ok=True)
        counter = [0]

        def launch(task):
            hs, tz, chunk = task
            spec = {'prop': self.prop, 'tier': self.tier, 'base_seed': self.base_seed, 'indices': chunk,
                    'known': sorted(self.known), 'deadline_s': max(5.0, t_end - time.monotonic()), 'samples': 1}
            counter[0] += 1
            fo = open(os.path.join(tmpdir, '%d.out' % counter[0]), 'w+')
            fe = open(os.path.join(tmpdir, '%d.err' % counter[0]), 'w+')
            p = subprocess.Popen(_worker_cmd(['batch', core.jdump(spec)]), env=_worker_env(hs, tz),
                                 stdout=fo, stderr=fe, text=True)
            return (p, task, (fo, fe))

        t_start = time.monotonic()
        try:
            while pending or running:
                while pending and len(running) < self.nworkers:
                    running.append(launch(pending.pop(0)))
                time.sleep(0.02)
                still = []
                for ent in running:
                    p, task, (fo, fe) = ent
                    if p.poll() is None:
                        if time.monotonic() - t_start > hard:
                            p.kill()
                            p.wait()
                            self.errors.append('worker for indices %s.. killed after hard timeout' % task[2][:3])
                            fo.close()
                            fe.close()
                            continue
                        still.append(ent)
                        continue
                    fo.seek(0)
                    fe.seek(0)
                    so, se = fo.read(), fe.read()
                    fo.close()
                    fe.close()
                    self._absorb(p.returncode, so, se, task)
                running = still
        finally:
            for ent in running:
                try:
                    ent[0].kill()
                except Exception:
                    pass
            import shutil
            shutil.rmtree(tmpdir, ignore_errors=True)
        return self

    def _absorb(self, rc, so, se, task):
        done_line = None
        for line in so.splitlines():
            line = line.strip()
            if not line:
                continue
            try:
                rec = json.loads(line)
            except ValueError:
                self.errors.append('unparsable worker output: %r' % line[:200])
                continue
            if 'done' in rec:
                done_line = rec
            else:
                self.results.append(rec)
        if rc != 0 or done_line is None:
            self.errors.append('worker exit=%s indices=%s.. stderr tail: %s' % (rc, task[2][:3], se[-1500:]))


def _write_json(path, obj):
    os.makedirs(os.path.dirname(path), exist_ok=True)
    tmp = path + '.tmp'
    with open(tmp, 'w') as f:
        json.dump(obj, f, indent=1, sort_keys=True)
    os.replace(tmp, path)


def replay_file(path, timeout=900):
    with open(path) as f:
        case = json.load(f)
    env = case.get('env', {'PYTHONHASHSEED': 0, 'TZ': 'UTC'})
    p = run_worker(['replay', path], env['PYTHONHASHSEED'], env['TZ'], timeout)
    if p.returncode != 0:
        raise core.HarnessError('replay worker failed: ' + p.stderr[-2000:])
    res = json.loads(p.stdout.strip().splitlines()[-1])
    return case, res


def confirm_minimise_report(prop, rec, known, tree):
    """rec: worker record with 'case' and 'violation'.  Returns replay path or raises HarnessError."""
    os.makedirs(REPLAYS, exist_ok=True)
    case = rec['case']
    case['expect'] = {'signature': rec['violation']['signature'], 'message': rec['violation']['message'],
                      'step': rec['violation'].get('step')}
    case['masked'] = sorted(known)
    case['tree'] = tree
    raw = os.path.join(REPLAYS, '%s-%d.raw.json' % (prop, case['run_seed']))
    _write_json(raw, case)
    # 1. confirm in a fresh interpreter
    _, res = replay_file(raw)
    v = res.get('violation')
    if not v or v['signature'] != case['expect']['signature']:
        raise core.HarnessError('violation %s did not reproduce on replay of %s (got %r)'
                                % (case['expect']['signature'], raw, v or res.get('harness_error')))
    # 2. minimise (same interpreter environment)
    final = os.path.join(REPLAYS, '%s-%d.json' % (prop, case['run_seed']))
    env = case['env']
    try:
        p = run_worker(['minimise', raw, final], env['PYTHONHASHSEED'], env['TZ'], 1800)
        ok = p.returncode == 0 and os.path.exists(final)
    except subprocess.TimeoutExpired:
        ok = False
    if ok:
        try:
            _, res2 = replay_file(final)
            v2 = res2.get('violation')
            ok = bool(v2 and v2['signature'] == case['expect']['signature'])
        except core.HarnessError:
            ok = False
    if not ok:
        # fall back to the unminimised (confirmed) case
        _write_json(final, case)
    return final


def known_finding_lines(prop, tree):
    """Re-confirm every open known finding by replaying its committed minimal case."""
    lines = []
    masked = set()
    notes = []
    for f in _findings.load(prop):
        if f.get('status') != 'open':
            continue
        rp = os.path.join(core.VERIF, f['replay'])
        try:
            case, res = replay_file(rp)
        except Exception as e:
            raise core.HarnessError('known finding %s: replay failed: %r' % (f['signature'], e))
        got = res.get('violation') or res.get('known')
        if got and got['signature'] == f['signature']:
            lines.append('KNOWN-FINDING: property=%s %s [%s]' % (prop, f['what'], f['signature']))
            masked.add(f['signature'])
        else:
            notes.append('note: known finding %s no longer reproduces (fixed?) - not masked' % f['signature'])
    return lines, masked, notes


def write_evidence(prop, tier, base_seed, mod, batch, wall, violations, known_hits, extra):
    res = batch.results
    nontrivial_runs = [r for r in res if r['nontrivial']]
    skeletons = set(r['skeleton'] + '|' + ';'.join(r['nontrivial']) for r in nontrivial_runs)
    keys = set()
    for r in nontrivial_runs:
        keys.update(r['nontrivial'])
    agg = lambda name: _sum_dicts(r[name] for r in res)
    samples = []
    for r in res:
        if 'case' in r and len(samples) < 3 and not r['violation']:
            c = r['case']
            samples.append({'run_seed': c['run_seed'], 'index': c['index'], 'env': c['env'], 'config': c.get('config'),
                            'steps': c['steps'][:14], 'steps_total': len(c['steps'])})
    steps = sum(r['nsteps'] for r in res)
    ev = {
        'property_id': prop,
        'tier': tier,
        'seed': base_seed,
        'level': 'exploration',
        'wall_s': round(wall, 2),
        'violations': violations,
        'coverage': {
            'evaluations': len(res),
            'distinct_nontrivial': len(skeletons),
            'rule': mod.RULE,
            'samples': samples or [{'note': 'no sample kept'}],
            'distinct_nontrivial_keys': len(keys),
            'oracle_evaluations': sum(r['oracle_evals'] for r in res),
            'steps_executed': steps,
            'runs_per_hour': int(len(res) / wall * 3600) if wall > 0 else 0,
            'steps_per_hour': int(steps / wall * 3600) if wall > 0 else 0,
            'simulated_seconds_covered': round(sum(r['sim_us'] for r in res) / 1e6, 1),
            'run_index_first': batch.start,
            'run_index_last': batch.start + batch.nruns - 1,
            'run_seed_first': core.run_seed_for(base_seed, prop, batch.start),
            'runs_requested': batch.nruns,
            'workers': batch.nworkers,
            'env_classes': [{'PYTHONHASHSEED': core.env_for(base_seed, i)[1], 'TZ': core.env_for(base_seed, i)[2]}
                            for i in range(len(core.ENV_CLASSES))],
            'faults_fired': agg('faults'),
            'perturbations_applied': agg('perturbs'),
            'probes': agg('probes'),
            'probes_stuck_at_zero': sorted(p for p in getattr(mod, 'PROBES', ()) if not agg('probes').get(p)),
            'urandom_draws_served': sum(r['urandom_draws'] for r in res),
            'clock_reads_served': sum(r['clock_reads'] for r in res),
            'runs_ended_by_known_finding': sum(1 for r in res if r['known']),
            'known_findings_hit': known_hits,
            'components': getattr(mod, 'COMPONENTS', COMPONENTS_DEFAULT),
            'tree': extra.get('tree'),
        },
        'assumptions': getattr(mod, 'ASSUMPTIONS', []) + ASSUMPTIONS_DEFAULT,
    }
    ev['coverage'].update(extra.get('coverage', {}))
    # evidence is only ever written for /repo itself; runs against scratch trees (mutant testing) go to out/
    evdir = os.path.join(core.VERIF, 'evidence') if os.path.realpath(core.REPO) == '/repo' else os.path.join(OUT, 'evidence-scratch')
    _write_json(os.path.join(evdir, '%s.json' % prop), ev)
    return ev


COMPONENTS_DEFAULT = {
    'real': ['all of pgpy/ imported from /repo working tree', 'cryptography/OpenSSL primitives', 'hashlib', 'zlib', 'bz2', 'pyasn1'],
    'simulated': ['wall clock (SimClock via module-level datetime)', 'os.urandom (SimRandom)', 'files (SimFS)',
                  'peers/transport/storage (in-process)'],
    'stubbed': ['OpenSSL key generation: EC/Ed25519/X25519 derived from simulator octets, RSA/DSA from committed pool'],
    'not_controlled': ['OpenSSL internal RNG: DSA/ECDSA nonces, RSA PKCS#1 v1.5 padding (noise fields, excluded from digests)'],
}
ASSUMPTIONS_DEFAULT = [
    'sampling, not enumeration: a clean batch is evidence, not proof',
    'the reference peer pgpsim/ref (written for this task from the RFC text) and cryptography/hashlib primitives are the trusted base of the oracles',
]


def _sum_dicts(ds):
    out = {}
    for d in ds:
        for k, v in d.items():
            out[k] = out.get(k, 0) + v
    return dict(sorted(out.items()))


def main(argv=None):
    argv = list(argv or sys.argv)
    if len(argv) < 3:
        print('usage: check <ID> quick|thorough | check <ID> --replay <file>')
        return 2
    prop = argv[1].upper()
    try:
        if argv[2] == '--replay':
            return do_replay(prop, argv[3])
        return do_check(prop, argv[2])
    except core.HarnessError as e:
        print('HARNESS-ERROR property=%s %s' % (prop, e))
        return 2


def do_replay(prop, path):
    case, res = replay_file(path)
    for e in res.get('events') or []:
        print('  ' + e)
    v = res.get('violation') or res.get('known')
    if res.get('harness_error'):
        print('HARNESS-ERROR ' + res['harness_error'])
        return 2
    if v:
        print('violation reproduced: %s: %s (step %s)' % (v['signature'], v['message'], v.get('step')))
        print('VIOLATION property=%s replay=%s' % (prop, path))
        return 1
    print('no violation on replay (digest %s)' % res['digest'])
    return 0


def do_check(prop, tier):
    if tier not in ('quick', 'thorough'):
        raise core.HarnessError('tier must be quick or thorough')
    tier = os.environ.get('VERIF_TIER', tier) if os.environ.get('VERIF_TIER') in ('quick', 'thorough') else tier
    base_seed = int(os.environ.get('VERIF_SEED', '0') or 0)
    mod = core.load_prop(prop)
    t0 = time.monotonic()
    tree = core.tree_id()
    print('check %s tier=%s VERIF_SEED=%d tree=%s%s' % (prop, tier, base_seed, tree['head'][:12],
                                                      '+dirty:' + tree['dirty_sha'] if tree['dirty_sha'] else ''))
    # anchors / preflight of the property (reference-peer self checks); harness errors if they fail
    pre = getattr(mod, 'preflight', None)
    if pre is not None:
        pre(tier)
    kf_lines, masked, notes = known_finding_lines(prop, tree)
    for n in notes:
        print(n)
    spec = mod.TIERS[tier]
    nruns = int(os.environ.get('PGPSIM_RUNS', spec['runs']))
    budget = float(os.environ.get('PGPSIM_BUDGET', spec['budget_s']))
    batch = Batch(prop, tier, base_seed, nruns, budget, masked).run()
    wall = time.monotonic() - t0
    herr = [r for r in batch.results if r['harness_error']]
    if batch.errors or herr:
        for e in batch.errors[:5]:
            print('HARNESS-ERROR property=%s %s' % (prop, e))
        for r in herr[:3]:
            print('HARNESS-ERROR property=%s run index %s seed %s:\n%s' % (prop, r['index'], r['run_seed'], r['harness_error']))
        write_evidence(prop, tier, base_seed, mod, batch, wall, 0, {}, {'tree': tree, 'coverage': {'harness_errors': len(batch.errors) + len(herr)}})
        return 2
    if not batch.results:
        raise core.HarnessError('no runs completed')
    viol = sorted((r for r in batch.results if r['violation']), key=lambda r: r['index'])
    known_hits = {}
    for r in batch.results:
        if r['known']:
            s = r['known']['signature']
            known_hits[s] = known_hits.get(s, 0) + 1
    extra = {'tree': tree, 'coverage': {}}
    rc = 0
    if viol:
        sigs = {}
        for r in viol:
            sigs.setdefault(r['violation']['signature'], []).append(r['index'])
        extra['coverage']['violation_signatures'] = {k: len(v) for k, v in sigs.items()}
        first = viol[0]
        print('violation in run index %d seed %d: %s: %s' % (first['index'], first['run_seed'],
                                                            first['violation']['signature'], first['violation']['message']))
        for s, idx in sorted(sigs.items())[:12]:
            print('  signature %s: %d runs (first index %d)' % (s, len(idx), idx[0]))
        path = confirm_minimise_report(prop, first, masked, tree)
        wall = time.monotonic() - t0
        write_evidence(prop, tier, base_seed, mod, batch, wall, len(viol), known_hits, extra)
        for l in kf_lines:
            print(l)
        print('VIOLATION property=%s replay=%s' % (prop, path))
        return 1
    ev = write_evidence(prop, tier, base_seed, mod, batch, wall, 0, known_hits, extra)
    for l in kf_lines:
        print(l)
    c = ev['coverage']
    print('ok %s: %d runs, %d steps, %d oracle evaluations, %d distinct non-trivial shapes, faults=%s, %.1fs'
          % (prop, c['evaluations'], c['steps_executed'], c['oracle_evaluations'], c['distinct_nontrivial'],
             sum(c['faults_fired'].values()), wall))
    if c['probes_stuck_at_zero']:
        print('warning: probes stuck at zero: %s' % ', '.join(c['probes_stuck_at_zero']))
    if c['evaluations'] < nruns:
        print('note: wall budget reached after %d of %d runs' % (c['evaluations'], nruns))
    return rc
