"""Worker: runs in a fresh interpreter with the slice's PYTHONHASHSEED / TZ.

Modes (argv[1]):
  batch    <json-spec>    run a slice of indices; one JSON line per run on stdout
  replay   <case-file>    run one recorded case; one JSON line on stdout
  minimise <case-file> <out-file>   shrink a failing case, keeping its finding signature
"""
import faulthandler
import json
import os
import sys
import time

from . import core
from . import minimise as _min


def _slim(res, case, keep_case):
    out = {k: res[k] for k in ('run_seed', 'violation', 'known', 'harness_error', 'digest', 'nsteps',
                               'probes', 'faults', 'perturbs', 'nontrivial', 'oracle_evals', 'sim_us',
                               'urandom_draws', 'clock_reads')}
    out['index'] = case.get('index')
    out['skeleton'] = core.skeleton(case)
    if keep_case:
        out['case'] = case
    return out


def batch(spec):
    prop = spec['prop']
    tier = spec['tier']
    base_seed = spec['base_seed']
    known = spec.get('known', [])
    deadline = time.monotonic() + spec.get('deadline_s', 3600)
    want_samples = spec.get('samples', 1)
    out = sys.stdout
    n = 0
    for index in spec['indices']:
        if time.monotonic() > deadline:
            break
        case = core.generate_case(prop, tier, base_seed, index)
        res = core.run_case(prop, case, known)
        keep = bool(res['violation'] or res['known'] or res['harness_error']) or n < want_samples
        out.write(core.jdump(_slim(res, case, keep)) + '\n')
        n += 1
        if res['harness_error']:
            break
    out.write(core.jdump({'done': n, 'of': len(spec['indices'])}) + '\n')
    out.flush()


def replay(path):
    with open(path) as f:
        case = json.load(f)
    case = dict(case)
    case['keep_events'] = True
    res = core.run_case(case['property'], case, known=case.get('masked', []))
    sys.stdout.write(core.jdump(res) + '\n')
    return res


def main(argv=None):
    argv = argv or sys.argv
    faulthandler.enable()
    mode = argv[1]
    if mode == 'batch':
        spec = json.loads(argv[2])
        faulthandler.dump_traceback_later(spec.get('deadline_s', 3600) + 900, exit=True)
        batch(spec)
    elif mode == 'replay':
        faulthandler.dump_traceback_later(600, exit=True)
        replay(argv[2])
    elif mode == 'minimise':
        faulthandler.dump_traceback_later(1500, exit=True)
        with open(argv[2]) as f:
            case = json.load(f)
        small = _min.minimise(case, budget_s=float(os.environ.get('PGPSIM_MIN_BUDGET', '240')))
        with open(argv[3], 'w') as f:
            json.dump(small, f, indent=1, sort_keys=True)
    else:
        raise SystemExit('unknown mode ' + mode)


if __name__ == '__main__':
    main()
