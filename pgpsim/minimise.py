"""ddmin over the step list, then property-specific simplification passes.
A candidate is accepted only if the same finding signature fires."""
import copy
import time

from . import core


def _fails(case, target, masked):
    res = core.run_case(case['property'], case, known=masked)
    v = res.get('violation')
    return bool(v and v['signature'] == target)


def ddmin(items, test, deadline):
    n = 2
    items = list(items)
    while len(items) >= 2 and time.monotonic() < deadline:
        chunk = max(1, len(items) // n)
        subsets = [items[i:i + chunk] for i in range(0, len(items), chunk)]
        reduced = False
        # try complements first (removing one chunk), they shrink fastest for sequences
        for i in range(len(subsets)):
            if time.monotonic() > deadline:
                break
            comp = [x for j, s in enumerate(subsets) if j != i for x in s]
            if comp and test(comp):
                items = comp
                n = max(n - 1, 2)
                reduced = True
                break
        if not reduced:
            if n >= len(items):
                break
            n = min(len(items), n * 2)
    # final single-step removal sweep
    i = 0
    while i < len(items) and time.monotonic() < deadline:
        cand = items[:i] + items[i + 1:]
        if cand and test(cand):
            items = cand
        else:
            i += 1
    return items


def minimise(case, budget_s=240):
    target = case['expect']['signature']
    masked = case.get('masked', [])
    deadline = time.monotonic() + budget_s
    mod = core.load_prop(case['property'])
    best = copy.deepcopy(case)
    if not _fails(best, target, masked):
        best['minimised'] = 'not reproducible in minimiser'
        return best

    def test_steps(steps):
        c = dict(best)
        c['steps'] = steps
        return _fails(c, target, masked)

    best['steps'] = ddmin(best['steps'], test_steps, deadline)
    # property-specific passes (inner steps, drop perturbations, shrink bodies, ...)
    simp = getattr(mod, 'simplify', None)
    if simp is not None:
        progress = True
        rounds = 0
        while progress and time.monotonic() < deadline and rounds < 6:
            progress = False
            rounds += 1
            for cand in simp(copy.deepcopy(best)):
                if time.monotonic() > deadline:
                    break
                if core.jdump(cand['steps']) == core.jdump(best['steps']) and \
                        core.jdump(cand.get('config')) == core.jdump(best.get('config')):
                    continue
                if _fails(cand, target, masked):
                    best = cand
                    progress = True
                    break
    best['minimised'] = True
    best['original_steps'] = len(case['steps'])
    return best
