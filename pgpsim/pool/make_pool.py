"""One-off generator of the committed RSA/DSA pool (uses cryptography only, not PGPy)."""
import json, sys
from cryptography.hazmat.primitives.asymmetric import rsa, dsa
out = {'rsa': {}, 'dsa': {}}
for size, n in ((1024, 4), (2048, 8), (3072, 3), (4096, 1)):
    lst = []
    for _ in range(n):
        k = rsa.generate_private_key(65537, size).private_numbers()
        lst.append({'p': hex(k.p), 'q': hex(k.q), 'd': hex(k.d), 'e': hex(k.public_numbers.e), 'n': hex(k.public_numbers.n)})
    out['rsa'][str(size)] = lst
for size, n in ((1024, 2), (2048, 3), (3072, 1)):
    lst = []
    for _ in range(n):
        pn = dsa.generate_parameters(size).parameter_numbers()
        lst.append({'p': hex(pn.p), 'q': hex(pn.q), 'g': hex(pn.g)})
    out['dsa'][str(size)] = lst
json.dump(out, open(sys.argv[1], 'w'), indent=0, sort_keys=True)
