"""Key-management histories (C07, C14, C15, C18): a universe of 2-4 keys held by
simulated parties, the full key-management step set applied in any order and
interleaved across keys under a clock that often does not advance, and a small
certificate model (the ledger) that records what was attached where.

The model never predicts exceptions: a step PGPy refuses leaves it unchanged.
"""
import copy
import datetime
import gc

from . import bridge, seams, world
from .core import HarnessError, Violation
from .ref import armor as rarmor, keys as rkeys, sigs as rsigs, tkey as rtkey
from .ref.wire import WireError, encode_packet, split_packets

STEP_KINDS = ('direct_other', 'add_uid', 'add_uattr', 'add_subkey', 'rebind_subkey', 'recertify', 'certify_other', 'revoke_uid', 'revoke_subkey',
              'revoke_key', 'add_revoker', 'del_uid', 'protect', 'derive_pub', 'drop_pub', 'copy_key', 'export_import', 'tick',
              # opt-in kinds (weight 0 unless a property asks for them) stay at the end of the list
              'revoke_subkey_by_other', 'adopt_subkey')
OPT_IN_KINDS = ('revoke_subkey_by_other', 'adopt_subkey')
NAMES = ['Ann', 'Bea Long Name', 'Cy', 'Dée', 'Eve (x)', 'Flo', 'Jose\u0301 (decomposed)']


class SigRec(object):
    __slots__ = ('packet', 'created_us', 'seq', 'exportable', 'kind', 'issuer_key', 'usage', 'primary', 'key_exp_s', 'embedded')

    def __init__(self, packet, created_us, seq, kind, issuer_key, exportable=True, usage=None, primary=None, key_exp_s=None):
        self.packet = packet
        self.created_us = created_us
        self.seq = seq
        self.kind = kind                # 'self', 'cert', 'rev', 'bind', 'direct', 'revoker'
        self.issuer_key = issuer_key
        self.exportable = exportable
        self.usage = usage
        self.primary = primary
        self.key_exp_s = key_exp_s

    def rank(self):
        return (self.created_us, self.seq)


class MUid(object):
    def __init__(self, kind, octets):
        self.kind = kind                # 'uid' / 'uattr'
        self.octets = octets            # uid text (utf-8) or image octets
        self.sigs = []
        self.removed = False

    def selfsigs(self):
        return [s for s in self.sigs if s.kind == 'self']

    def own_sigs(self, owner):
        """everything the key itself issued on this identity: certifications and certification revocations"""
        return [s for s in self.sigs if s.kind == 'self' or (s.kind == 'rev' and s.issuer_key == owner)]

    def latest_self(self, owner=None):
        ss = self.own_sigs(owner) if owner is not None else self.selfsigs()
        return max(ss, key=SigRec.rank) if ss else None


class MSub(object):
    def __init__(self, fp, alg):
        self.fp = fp
        self.alg = alg
        self.sigs = []


class MKey(object):
    def __init__(self, name, fp, alg, created_s):
        self.name = name
        self.fp = fp
        self.alg = alg
        self.created_s = created_s
        self.uids = []
        self.subs = []
        self.direct = []
        self.passphrase = None
        self.revoked = False

    def live_uids(self):
        return [u for u in self.uids if not u.removed]

    def truncate_times(self):
        """On the wire creation times have second granularity.  Signatures that now tie keep the order they had
        before the hop (that is the packet order of the export), so their sequence numbers are re-dealt in that order."""
        groups = [u.sigs for u in self.uids] + [sk.sigs for sk in self.subs] + [self.direct]
        for sigs in groups:
            ordered = sorted(sigs, key=SigRec.rank)
            seqs = sorted(s.seq for s in sigs)
            for s, q in zip(ordered, seqs):
                s.seq = q
                s.created_us -= s.created_us % 1_000_000


def gen_universe(rng, n=None, heavy=0.08):
    n = n or rng.choice([2, 2, 3])
    keys = {}
    for i in range(n):
        alg = rng.choice(['ed25519', 'ed25519', 'p256', 'p384', 'secp256k1', 'p521']) if rng.random() > heavy else \
            rng.choice(['rsa2048', 'dsa2048', 'rsa1024'])
        keys['k%d' % i] = {'alg': alg, 'uid': [NAMES[i % len(NAMES)], rng.choice(['', 'c%d' % i]), 'k%d@example.org' % i],
                           'created_us': 1_400_000_000_000_000 + rng.choice([0, 0, 1, 86400 * 30, 86400 * 365 * 3]) * 1_000_000,
                           'usage': rng.choice(['CS', 'CS', 'C', 'CSE']),
                           # the creation instant spelled as an aware datetime of another zone, or naive
                           'created_tz': rng.choice([None, None, None, [2, 0], [-5, -30], [9, 0], 'naive_utc'])}
    if rng.random() < 0.15:
        # a secret key made by another implementation: a user id that is not valid UTF-8 and/or an ECDH subkey whose KDF
        # parameters are not PGPy's per-curve defaults
        k = keys['k0']
        k['foreign_uid'] = rng.choice(['Latin\xe9 N\xe4me <l@example.org>'.encode('latin-1'), b'Foreign Key <f@example.org>']).hex()
        k['alg'] = 'ed25519'
        if rng.random() < 0.25:
            # the secret parts live on a smartcard: GnuPG exports stubs (S2K 101, mode 2, card serial)
            k['foreign_stub'] = True
        elif rng.random() < 0.2:
            # the shape some generators still write: an RSA Sign-Only primary (id 3) with an RSA Encrypt-Only subkey (id 2)
            k['foreign_rsa_legacy'] = True
        if rng.random() < 0.6:
            k['foreign_sub'] = {'curve': rng.choice(['cv25519', 'cv25519', 'ecdh_p256', 'ecdh_p384', 'ecdh_p521', 'elg2048']),
                                'kdf': rng.choice([[8, 7], [10, 9], [9, 8], [10, 7], [8, 9], [9, 9]])}
    for name in sorted(keys):
        # a key whose signing subkeys are bound with the Certify flag as well (legal, unusual); a primary key can always
        # certify, so key management stays the primary's business
        if rng.random() < 0.25 and 'foreign_uid' not in keys[name]:
            keys[name]['cert_sub'] = True
    return keys


def uid_octets(u):
    """the octets of a user id as the object emits them (its text may have been decoded through PGPy's latin-1 fallback)"""
    from .ref.wire import read_packet
    return read_packet(bytes(u._uid.__bytearray__()))[0].body


def gen_step(rng, sid, knames, weights=None):
    kinds = list(STEP_KINDS)
    w = weights or {}
    kind = rng.choices(kinds, [w.get(k, 0.0 if k in OPT_IN_KINDS else 1.0) for k in kinds])[0]
    st = {'id': sid, 'op': kind, 'key': rng.choice(knames)}
    others = [k for k in knames if k != st['key']] or knames
    st['other'] = rng.choice(others)
    st['uid_index'] = rng.randrange(4)
    st['sub_index'] = rng.randrange(3)
    if kind == 'tick':
        st['delta_us'] = rng.choice([0, 1, 250_000, 999_999, 1_000_000, 1_000_000, 61_000_000, 86400_000_000, 400 * 86400_000_000, -500_000, -3_000_000])
    if kind in ('add_uid', 'recertify'):
        st['name'] = [rng.choice(NAMES) + ' %d' % rng.randrange(100), rng.choice(['', 'cmt']), rng.choice(['', 'x%d@example.org' % rng.randrange(50)])]
        st['usage'] = rng.choice(['CS', 'C', 'CSE', 'CSET', 'CA', 'S', None])
        st['hashes'] = rng.choice([None, [8], [10, 8], [9, 10, 8, 11]])
        st['ciphers'] = rng.choice([None, [9], [9, 8, 7], [7, 2]])
        st['compression'] = rng.choice([None, [2, 1], [0]])
        st['primary'] = rng.choice([None, None, True, False])
        st['key_expiration_s'] = rng.choice([None, None, None, 86400 * 365 * 30, 86400 * 365 * 50])
        # a self-certification that itself expires (unusual, legal): it stays on the key and in its exports
        st['sig_expires_s'] = rng.choice([None, None, None, None, 3600, 86400 * 30])
        st['no_issuer_fpr'] = rng.random() < 0.2
    if kind == 'add_subkey':
        st['alg'] = rng.choice(['cv25519', 'cv25519', 'ed25519', 'p256', 'ecdh_p256', 'ecdh_p384'])
        st['usage'] = ('E' if not world.can_sign(st['alg']) else rng.choice(['S', 'S', 'SA', 'A']))
        # a binding signature that itself expires (unusual, legal): the subkey stays a component of the key
        st['sig_expires_s'] = rng.choice([None, None, None, 3600, 86400 * 30])
        if rng.random() < 0.3:
            st['created_us'] = 1_400_000_000_000_000 + rng.choice([0, 86400 * 700, 86400 * 2000]) * 1_000_000
            st['created_tz'] = rng.choice([None, [2, 0], [-5, -30], [9, 0]])
    if kind == 'adopt_subkey':
        st['usage'] = rng.choice(['S', 'E', 'ET', 'A', 'SA'])
        st['donor_form'] = rng.choice(['copy', 'reimported'])
    if kind == 'rebind_subkey':
        st['usage'] = rng.choice(['S', 'E', 'ET', 'A', 'SA'])
        st['sig_expires_s'] = rng.choice([None, None, None, 3600, 86400 * 30])
    if kind in ('certify_other', 'direct_other'):
        st['level'] = rng.choice([0x10, 0x11, 0x12, 0x13])
        st['exportable'] = rng.choice([None, None, True, False])
        st['trust'] = rng.choice([None, None, [1, 60], [2, 120]])
    if kind == 'add_revoker':
        st['sensitive'] = rng.random() < 0.35
    if kind in ('revoke_uid', 'revoke_subkey', 'revoke_key', 'revoke_subkey_by_other'):
        st['reason'] = rng.choice([0, 1, 2, 3, 32])
        st['comment'] = rng.choice(['', 'gone'])
    if kind == 'protect':
        st['pass'] = rng.choice(['pw', 'pw two'])
        st['wrap'] = rng.random() < 0.6      # subsequent private operations on this key run inside unlock()
    if kind == 'export_import':
        st['half'] = rng.choice(['priv', 'priv', 'pub'])
        st['armor'] = rng.random() < 0.4
        st['perturb'] = rng.sample(['trust', 'reframe_old', 'reframe_5', 'marker', 'crlf', 'v3sig'], rng.choice([0, 0, 1, 2]))
    return st


class KeyHistory(object):
    """Executes steps against real PGPy objects and keeps the model."""

    def __init__(self, keys_cfg, ctx, hooks=None):
        import pgpy
        self.pgpy = pgpy
        self.ctx = ctx
        self.hooks = hooks or {}
        self.seq = 0
        self.priv = {}
        self.model = {}
        self.held_pub = {}          # name -> strong reference to a derived public twin (or absent)
        self.ghosts = []
        self.pub_only = {}          # name -> True when the party only has the public key (after a pub export/import)
        self.cfg = keys_cfg
        clock = seams.clock()
        for name in sorted(keys_cfg):
            c = keys_cfg[name]
            clock.set(c['created_us'])
            spec = {'alg': c['alg'], 'uids': [c['uid']], 'usage': c.get('usage', 'CS'), 'subkeys': [], 'created_us': c['created_us'],
                    'created_tz': c.get('created_tz')}
            try:
                if c.get('foreign_uid'):
                    k = self._foreign_key(name, c)
                else:
                    k = world.build_key(spec, name)
            except (OverflowError, ValueError) as e:
                # a creation time PGPy cannot represent (e.g. before the epoch once spelled in another zone)
                ctx.probe('key_creation_refused')
                ctx.event('build', name, 'refused', type(e).__name__)
                continue
            hk = self.hooks.get('on_new_component')
            if hk:
                hk(self, name, k)
            tk = bridge.ref_tkey(bytes(k))
            mk = MKey(name, tk.pub.fingerprint, c['alg'], tk.pub.created)
            if c.get('foreign_uid'):
                fu = tk.uids[0]
                mu = MUid('uid', fu.pkt.body)
                mu.sigs.append(self._rec(encode_packet(2, fu.sigs[0]), 'self', name, usage='CS'))
                try:
                    fu.pkt.body.decode('utf-8')
                except UnicodeDecodeError:
                    ctx.probe('foreign_non_utf8_uid')
                for fc in tk.subkeys:
                    ms = MSub(fc.key.fingerprint, (c.get('foreign_sub') or {'curve': 'rsa2048'})['curve'])
                    ms.sigs.append(self._rec(encode_packet(2, fc.sigs[0]), 'bind', name, usage='E'))
                    mk.subs.append(ms)
                    ctx.probe('foreign_ecdh_subkey')
            else:
                mu = MUid('uid', k.userids[0].userid.encode('utf-8'))
                mu.sigs.append(self._rec(bytes(k.userids[0].selfsig), 'self', name, usage=c.get('usage', 'CS')))
            mk.uids.append(mu)
            self.priv[name] = k
            self.model[name] = mk

    # ------------------------------------------------------------------
    def _rec(self, pkt, kind, issuer, **kw):
        self.seq += 1
        rs = bridge.ref_sig(pkt)
        created_us = seams.clock().us
        # an explicit creation time is what the packet says
        if rs.created is not None and abs(rs.created - created_us // 1_000_000) > 1:
            created_us = rs.created * 1_000_000
        return SigRec(pkt, created_us, self.seq, kind, issuer, **kw)

    def key(self, name):
        return self.priv[name]

    def _foreign_key(self, name, c):
        """a secret key made by the reference peer whose user id is not valid UTF-8 (latin-1 octets), as old
        keys in the wild have them"""
        created = c['created_us'] // 1_000_000
        rs = seams.rnd().run_seed
        body, alg, sec = rkeys.gen_key('ed25519', created, seams.derive(rs, 'foreignkey:' + name, 'primary', 32))
        subs = []
        fs = c.get('foreign_sub')
        if c.get('foreign_rsa_legacy'):
            from .props.c05 import make_ref_key
            body, alg, sec = make_ref_key('rsa2048', created, b'', rs, label='foreignkey:' + name + ':p')
            body, alg = body[:5] + bytes([rkeys.RSA_S]) + body[6:], rkeys.RSA_S
            sb, salg, ssec = make_ref_key('rsa2048', created, b'', rs, label='foreignkey:' + name + ':e')
            sb, salg = sb[:5] + bytes([rkeys.RSA_E]) + sb[6:], rkeys.RSA_E
            subs.append((sb, salg, ssec, 0x0C))
            fs = None
            self.ctx.probe('foreign_legacy_rsa_ids')
        if fs:
            if fs['curve'].startswith('elg'):
                # the classic GnuPG shape: an ElGamal encryption subkey
                from .props.c05 import make_ref_key
                sb, salg, ssec = make_ref_key(fs['curve'], created, b'', rs, label='foreignkey:' + name)
            else:
                sb, salg, ssec = rkeys.gen_key(fs['curve'], created, seams.derive(rs, 'foreignkey:' + name, 'sub', 72 if fs['curve'] != 'cv25519' else 32),
                                               kdf=fs['kdf'])
            subs.append((sb, salg, ssec, 0x0C))
        tkb = bridge.build_ref_tkey(body, alg, sec, bytes.fromhex(c['foreign_uid']), created, secret_export=True, subkeys=subs)
        if c.get('foreign_stub'):
            out = bytearray()
            for p in split_packets(tkb):
                if p.tag in (5, 7):
                    out += encode_packet(p.tag, rkeys.build_gnu_dummy_body(rkeys.parse_pub(p.body).body, seams.derive(rs, 'foreignkey:' + name, 'card', 16)))
                else:
                    out += p.raw
            tkb = bytes(out)
            self.ctx.probe('foreign_card_stub_key')
        return self.pgpy.PGPKey.from_blob(tkb)[0]

    def _unlocked(self, name):
        """context manager: private operations on a protected key run inside unlock()"""
        mk = self.model[name]
        k = self.priv[name]
        if mk.passphrase is not None:
            return k.unlock(mk.passphrase)
        import contextlib
        return contextlib.nullcontext()

    def _find_uid(self, k, mu):
        for u in (k.userids if mu.kind == 'uid' else k.userattributes):
            if (mu.kind == 'uid' and uid_octets(u) == mu.octets) or (mu.kind == 'uattr' and bytes(u.image) == mu.octets):
                return u
        return None

    def _find_sub(self, k, ms):
        for sk in k.subkeys.values():
            if bytes.fromhex(str(sk.fingerprint)) == ms.fp:
                return sk
        return None

    # ------------------------------------------------------------------
    def apply(self, st):
        """Returns a short outcome string; never raises for PGPy refusals."""
        op = st['op']
        name = st['key']
        if name not in self.priv:
            return 'nokey'
        if self.pub_only.get(name) and op not in ('tick', 'export_import', 'copy_key', 'drop_pub', 'derive_pub'):
            return 'pubonly'
        if self.cfg.get(name, {}).get('foreign_stub') and op not in ('tick', 'export_import', 'copy_key', 'drop_pub', 'derive_pub'):
            # a key whose secrets live on a card cannot act; what it is put through here is copying, deriving and hops
            return 'cardstub'
        fn = getattr(self, '_op_' + op)
        if self.cfg.get(name, {}).get('cert_sub') and st.get('usage'):
            if op in ('add_subkey', 'rebind_subkey') and 'S' in st['usage']:
                st = dict(st, usage='C' + st['usage'])
                self.ctx.probe('subkey_bound_with_certify_flag')
        try:
            return fn(st, name, self.priv[name], self.model[name]) or 'ok'
        except (seams.SimCancelled, Violation, HarnessError):
            raise
        except Exception as e:
            return 'raised:' + type(e).__name__

    def _prefs(self, st):
        C = self.pgpy.constants
        kw = {}
        if st.get('usage'):
            kw['usage'] = world.flags_from(st['usage'])
        if st.get('hashes'):
            kw['hashes'] = [C.HashAlgorithm(x) for x in st['hashes']]
        if st.get('ciphers'):
            kw['ciphers'] = [C.SymmetricKeyAlgorithm(x) for x in st['ciphers']]
        if st.get('compression'):
            kw['compression'] = [C.CompressionAlgorithm(x) for x in st['compression']]
        if st.get('primary') is not None:
            kw['primary'] = st['primary']
        if st.get('key_expiration_s'):
            kw['key_expiration'] = datetime.timedelta(seconds=st['key_expiration_s'])
        if st.get('no_issuer_fpr') and st.get('op') in ('add_uid', 'recertify'):
            kw['include_issuer_fingerprint'] = False
            self.ctx.probe('self_certification_without_issuer_fingerprint')
        if st.get('sig_expires_s') and st.get('op') in ('add_uid', 'recertify'):
            kw['expires'] = datetime.timedelta(seconds=st['sig_expires_s'])
            self.ctx.probe('self_certification_expires')
        return kw

    def _op_tick(self, st, name, k, mk):
        seams.clock().advance(st['delta_us'])

    def _op_add_uid(self, st, name, k, mk):
        text = st['name']
        uid = self.pgpy.PGPUID.new(text[0], comment=text[1], email=text[2])
        octs = uid.userid.encode('utf-8')
        if any(u.octets == octs and not u.removed for u in mk.uids):
            return 'dup'
        with self._unlocked(name):
            k.add_uid(uid, **self._prefs(st))
        mu = MUid('uid', octs)
        mu.sigs.append(self._rec(bytes(uid.selfsig), 'self', name, usage=st.get('usage'), primary=st.get('primary'), key_exp_s=st.get('key_expiration_s')))
        mk.uids.append(mu)

    def _op_add_uattr(self, st, name, k, mk):
        img = bytearray(world.JPEG + bytes([len(mk.uids)]))
        if any(u.kind == 'uattr' and u.octets == bytes(img) and not u.removed for u in mk.uids):
            return 'dup'
        uid = self.pgpy.PGPUID.new(img)
        with self._unlocked(name):
            k.add_uid(uid)
        mu = MUid('uattr', bytes(img))
        mu.sigs.append(self._rec(bytes(uid.selfsig), 'self', name))
        mk.uids.append(mu)

    def _op_recertify(self, st, name, k, mk):
        live = mk.live_uids()
        if not live:
            return 'nouid'
        mu = live[st['uid_index'] % len(live)]
        u = self._find_uid(k, mu)
        if u is None:
            return 'uid-missing'
        with self._unlocked(name):
            sig = k.certify(u, self.pgpy.constants.SignatureType.Positive_Cert, **self._prefs(st))
        u |= sig
        mu.sigs.append(self._rec(bytes(sig), 'self', name, usage=st.get('usage'), primary=st.get('primary'), key_exp_s=st.get('key_expiration_s')))

    def _op_certify_other(self, st, name, k, mk):
        tgt_name = st['other']
        if tgt_name == name or tgt_name not in self.priv:
            return 'notarget'
        tk, tm = self.priv[tgt_name], self.model[tgt_name]
        live = [u for u in tm.live_uids()]
        if not live:
            return 'nouid'
        mu = live[st['uid_index'] % len(live)]
        u = self._find_uid(tk, mu)
        if u is None:
            return 'uid-missing'
        kw = {}
        if st.get('exportable') is not None:
            kw['exportable'] = st['exportable']
            if st['exportable']:
                self.ctx.probe('explicit_exportable_true')
        if st.get('trust'):
            kw['trust'] = tuple(st['trust'])
        with self._unlocked(name):
            sig = k.certify(u, self.pgpy.constants.SignatureType(st['level']), **kw)
        u |= sig
        mu.sigs.append(self._rec(bytes(sig), 'cert', name, exportable=st.get('exportable') is not False))

    def _op_direct_other(self, st, name, k, mk):
        """a third party's direct-key signature (0x1F) on another key, possibly local (non-exportable)"""
        tgt_name = st['other']
        if tgt_name == name or tgt_name not in self.priv:
            return 'notarget'
        tk, tm = self.priv[tgt_name], self.model[tgt_name]
        kw = {}
        if st.get('exportable') is not None:
            kw['exportable'] = st['exportable']
            if st['exportable']:
                self.ctx.probe('explicit_exportable_true')
        with self._unlocked(name):
            sig = k.certify(tk, **kw)
        tk |= sig
        tm.direct.append(self._rec(bytes(sig), 'direct', name, exportable=st.get('exportable') is not False))

    def _op_revoke_uid(self, st, name, k, mk):
        live = mk.live_uids()
        if not live:
            return 'nouid'
        mu = live[st['uid_index'] % len(live)]
        u = self._find_uid(k, mu)
        if u is None:
            return 'uid-missing'
        C = self.pgpy.constants
        with self._unlocked(name):
            sig = k.revoke(u, reason=C.RevocationReason(st.get('reason', 0)), comment=st.get('comment', ''))
        u |= sig
        mu.sigs.append(self._rec(bytes(sig), 'rev', name))

    def _op_add_subkey(self, st, name, k, mk):
        if len(mk.subs) >= 3:
            return 'full'
        sub = world.new_key(st['alg'], '%s.%s' % (name, st['id']), created_tz=st.get('created_tz'),
                            created_us=st.get('created_us'))
        fp = bytes.fromhex(str(sub.fingerprint))
        hk = self.hooks.get('on_new_component')
        if hk:
            hk(self, name, sub)
        kw = {}
        if st.get('sig_expires_s'):
            kw['expires'] = datetime.timedelta(seconds=st['sig_expires_s'])
            self.ctx.probe('binding_signature_expires')
        with self._unlocked(name):
            k.add_subkey(sub, usage=world.flags_from(st['usage']), **kw)
            if mk.passphrase is not None:
                # a component added to a protected key is protected with the same passphrase (as a caller would)
                pass
        # the fingerprint the key had before it was adopted as a subkey: adoption does not make it another key
        ms = MSub(fp, st['alg'])
        bs = [s for s in sub.__sig__ if int(s.type) == 0x18]
        ms.sigs.append(self._rec(bytes(bs[-1]), 'bind', name, usage=st['usage']))
        mk.subs.append(ms)

    def _op_rebind_subkey(self, st, name, k, mk):
        if not mk.subs:
            return 'nosub'
        ms = mk.subs[st['sub_index'] % len(mk.subs)]
        sk = self._find_sub(k, ms)
        if sk is None:
            return 'sub-missing'
        usage = st['usage']
        if not world.can_sign(ms.alg):
            usage = ''.join(c for c in usage if c in 'ET') or 'E'
        else:
            usage = ''.join(c for c in usage if c in 'CSA') or 'S'
        kw = {}
        if st.get('sig_expires_s'):
            kw['expires'] = datetime.timedelta(seconds=st['sig_expires_s'])
            self.ctx.probe('binding_signature_expires')
        with self._unlocked(name):
            sig = k.bind(sk, usage=world.flags_from(usage), **kw)
        sk |= sig
        ms.sigs.append(self._rec(bytes(sig), 'bind', name, usage=usage))

    def _op_adopt_subkey(self, st, name, k, mk):
        # key transition: a subkey that one primary has bound is handed, as a copy or as re-imported, to add_subkey of a new
        # primary.  The new primary is a throw-away key, the modelled key only lends the subkey; what is judged is that the new
        # primary's own binding (with the flags asked for, and the cross-signature of a signing subkey) is made, verifies under
        # the reference peer, shows on the public twin and survives a hop.
        import copy as _copy
        if not mk.subs or k.is_public or mk.passphrase is not None:
            return 'nodonor'
        ms = mk.subs[st['sub_index'] % len(mk.subs)]
        sk = self._find_sub(k, ms)
        if sk is None:
            return 'sub-missing'
        usage = st['usage']
        if not world.can_sign(ms.alg):
            usage = ''.join(c for c in usage if c in 'ET') or 'E'
        else:
            usage = ''.join(c for c in usage if c in 'CSA') or 'S'
        if st.get('donor_form') == 'reimported':
            donor = [x for x in self.pgpy.PGPKey.from_blob(bytes(k))[0].subkeys.values() if bytes.fromhex(str(x.fingerprint)) == ms.fp][0]
        else:
            donor = _copy.copy(sk)
        new = world.new_key('ed25519', '%s.%s.heir' % (name, st['id']))
        new.add_uid(self.pgpy.PGPUID.new('Heir of %s' % name), usage=world.flags_from('CS'))
        new.add_subkey(donor, usage=world.flags_from(usage))
        self.ctx.probe('subkey_adopted_by_new_primary')
        self.ctx.checked()
        nk = bytes.fromhex(str(new.fingerprint))[-8:]

        def judge(what, blob):
            try:
                tk = bridge.ref_tkey(blob)
            except WireError as e:
                raise Violation('C15:adopted-export-unreadable', '%s: the reference peer cannot parse it: %s' % (what, e))
            comp = [c for c in tk.subkeys if c.key.fingerprint == ms.fp]
            if not comp:
                raise Violation('C15:adopted-subkey-missing', '%s: the adopted subkey is not a component of its new primary' % what)
            own = []
            for b in comp[0].sigs:
                sg = rsigs.parse_sig(b)
                iss = sg.issuer or (sg.issuer_fpr[-8:] if sg.issuer_fpr else None)
                if sg.type == 0x18 and iss == nk:
                    own.append(sg)
            if not own:
                raise Violation('C15:adopted-subkey-unbound', '%s: a subkey another primary had bound was added with add_subkey but carries no '
                                'binding signature of its new primary' % what)
            sg = own[-1]
            if not rsigs.verify(sg, tk.pub, rtkey.subject_for(tk, comp[0], sg)):
                raise Violation('C15:adopted-binding-invalid', '%s: the new primary\'s binding of the adopted subkey does not verify' % what)
            fl = sg.sub(rsigs.SP_KEYFLAGS, True)
            want = 0
            for c in usage:
                want |= {'C': 1, 'S': 2, 'E': 4, 'T': 8, 'A': 0x20}[c]
            got = fl[0].body[0] if fl and fl[0].body else None
            if got != want:
                raise Violation('C15:adopted-binding-flags', '%s: the new binding says key flags %r, add_subkey was asked for 0x%02x' % (what, got, want))
            if 'S' in usage:
                emb = sg.sub(rsigs.SP_EMBEDDED)
                if not emb:
                    raise Violation('C15:adopted-crosssig-missing', '%s: the new binding of a signing subkey has no embedded primary-key binding' % what)
                es = rsigs.parse_sig(emb[0].body)
                if not (es.type == 0x19 and rsigs.verify(es, comp[0].key, rtkey.subject_for(tk, comp[0], sg))):
                    raise Violation('C15:adopted-crosssig-invalid', '%s: the embedded primary-key binding does not verify' % what)

        judge('new primary after add_subkey of a %s subkey' % st.get('donor_form', 'copy'), bytes(new))
        judge('public twin of the new primary', bytes(new.pubkey))
        judge('new primary after a hop', bytes(self.pgpy.PGPKey.from_blob(bytes(new))[0]))
        # the lender is untouched
        if [bytes(s) for s in sk.__sig__] != [bytes(s) for s in self._find_sub(k, ms).__sig__]:
            raise Violation('C15:adoption-changed-lender', 'lending a subkey changed the lender\'s own subkey')

    def _op_revoke_subkey_by_other(self, st, name, k, mk):
        # a subkey revocation issued by another key of the universe (a designated revoker's, say): it belongs to the subkey it is
        # attached to, whoever issued it and wherever the issuer's key stands in a keyring
        on = st['other']
        if on == name or on not in self.priv or self.priv[on].is_public or not mk.subs or self.cfg.get(on, {}).get('foreign_stub'):
            return 'notarget'
        ms = mk.subs[st['sub_index'] % len(mk.subs)]
        sk = self._find_sub(k, ms)
        if sk is None:
            return 'sub-missing'
        C = self.pgpy.constants
        with self._unlocked(on):
            sig = self.priv[on].revoke(sk, reason=C.RevocationReason(st.get('reason', 0)), comment=st.get('comment', ''))
        sk |= sig
        ms.sigs.append(self._rec(bytes(sig), 'rev_other', on))
        self.ctx.probe('subkey_revocation_by_another_key')

    def _op_revoke_subkey(self, st, name, k, mk):
        if not mk.subs:
            return 'nosub'
        ms = mk.subs[st['sub_index'] % len(mk.subs)]
        sk = self._find_sub(k, ms)
        if sk is None:
            return 'sub-missing'
        C = self.pgpy.constants
        with self._unlocked(name):
            sig = k.revoke(sk, reason=C.RevocationReason(st.get('reason', 0)), comment=st.get('comment', ''))
        sk |= sig
        ms.sigs.append(self._rec(bytes(sig), 'rev', name))

    def _op_revoke_key(self, st, name, k, mk):
        C = self.pgpy.constants
        with self._unlocked(name):
            sig = k.revoke(k, reason=C.RevocationReason(st.get('reason', 0)), comment=st.get('comment', ''))
        k |= sig
        mk.direct.append(self._rec(bytes(sig), 'rev', name))
        mk.revoked = True

    def _op_add_revoker(self, st, name, k, mk):
        o = st['other']
        if o == name or o not in self.priv:
            return 'notarget'
        kw = {}
        if st.get('sensitive'):
            kw['sensitive'] = True
            self.ctx.probe('sensitive_designated_revoker')
        with self._unlocked(name):
            sig = k.revoker(self.priv[o].pubkey if not self.priv[o].is_public else self.priv[o], **kw)
        k |= sig
        mk.direct.append(self._rec(bytes(sig), 'revoker', name))

    def _op_del_uid(self, st, name, k, mk):
        live = [u for u in mk.live_uids() if u.kind == 'uid']
        if len(live) < 2:
            return 'keep-one'
        mu = live[st['uid_index'] % len(live)]
        u = self._find_uid(k, mu)
        if u is None:
            return 'uid-missing'
        # del_uid searches by name / comment / e-mail; a search string shared with another identity would
        # remove whichever comes first, so the step only runs when the name is unambiguous
        if sum(1 for x in k.userids if x.name == u.name) != 1:
            return 'ambiguous'
        k.del_uid(u.name)
        mu.removed = True

    def _op_protect(self, st, name, k, mk):
        C = self.pgpy.constants
        if k.is_public:
            return 'public'
        if mk.passphrase is not None:
            with k.unlock(mk.passphrase):
                k.protect(st['pass'], C.SymmetricKeyAlgorithm.AES256, C.HashAlgorithm.SHA256)
        else:
            k.protect(st['pass'], C.SymmetricKeyAlgorithm.AES256, C.HashAlgorithm.SHA256)
        mk.passphrase = st['pass']

    def _op_derive_pub(self, st, name, k, mk):
        if k.is_public:
            return 'public'
        self.held_pub[name] = k.pubkey
        self.ctx.probe('twin_held')

    def _op_drop_pub(self, st, name, k, mk):
        if name in self.held_pub:
            del self.held_pub[name]
            gc.collect()
            self.ctx.probe('twin_collected')

    def _op_copy_key(self, st, name, k, mk):
        # the original and its living public twin stay around as "ghosts": nothing that happens to the copy may show on them
        twin = None
        if not k.is_public and len(self.ghosts) < 2:
            twin = self.held_pub.get(name) or k.pubkey
        new = copy.copy(k)
        if twin is not None:
            self.ghosts.append({'name': name, 'old': k, 'twin': twin, 'priv': bytes(k), 'pub': bytes(twin)})
            self.ctx.probe('ghost_of_copied_key_kept')
        h = self.hooks.get('on_copy')
        if h:
            h(self, name, k, new)
        self.priv[name] = new
        self.held_pub.pop(name, None)

    def ghost_violations(self):
        out = []
        for g in self.ghosts:
            if bytes(g['old']) != g['priv']:
                out.append('the key %s was copied from exports other octets after operations on the copy' % g['name'])
            if bytes(g['twin']) != g['pub']:
                out.append('the public twin held for the original of %s changed after operations on its copy' % g['name'])
            elif bytes(g['old'].pubkey) != g['pub']:
                out.append('the public half of the original of %s differs from what it was when the copy was taken' % g['name'])
        return out

    def export(self, name, half='priv', armor=False, perturb=()):
        k = self.priv[name]
        obj = k if (half == 'priv' or k.is_public) else k.pubkey
        data = bytes(obj)
        return obj, perturb_key_bytes(data, perturb, self.ctx, armor, 'PRIVATE KEY BLOCK' if not obj.is_public else 'PUBLIC KEY BLOCK', str(obj) if armor else None)

    def _op_export_import(self, st, name, k, mk):
        obj, wire = self.export(name, st.get('half', 'priv'), st.get('armor'), st.get('perturb', ()))
        h = self.hooks.get('before_import')
        if h:
            h(self, name, obj, wire, st)
        new = self.pgpy.PGPKey.from_blob(wire)[0]
        h = self.hooks.get('after_import')
        if h:
            h(self, name, obj, new, st)
        self.priv[name] = new
        self.held_pub.pop(name, None)
        if new.is_public:
            self.pub_only[name] = True
        # on the wire creation times have second granularity; non-exportable signatures stay behind
        mk.truncate_times()
        for u in mk.uids:
            u.sigs = [s for s in u.sigs if s.exportable]
        mk.direct = [s for s in mk.direct if s.exportable]
        if st.get('half') == 'pub' or new.is_public:
            mk.passphrase = None


def perturb_key_bytes(data, kinds, ctx, armor=False, label='PUBLIC KEY BLOCK', own_armor=None):
    """P1-P3 for transferable keys: trust packets after every packet (keyring style), re-framing,
    marker, armor with CRLF."""
    out = bytes(data)
    changed = False
    for k in kinds:
        if k == 'trust':
            # two-octet bodies, as GnuPG keyring files have them; every third packet is followed by two of them (owner trust and
            # validity records side by side)
            out = b''.join(p.raw + encode_packet(12, b'\x00\x05' if i % 2 else b'\x03\x00') + (encode_packet(12, b'\x04\x00') if i % 3 == 1 else b'')
                           for i, p in enumerate(split_packets(out)))
            ctx.perturb('trust_packets')
            changed = True
        elif k == 'reframe_old':
            out = b''.join(encode_packet(p.tag, p.body, 'old', 2 if len(p.body) < 65536 else 4) if p.tag < 16 else p.raw
                           for p in split_packets(out))
            ctx.perturb('reframe')
            changed = True
        elif k == 'reframe_5':
            out = b''.join(encode_packet(p.tag, p.body, 'new', 5) for p in split_packets(out))
            ctx.perturb('reframe')
            changed = True
        elif k == 'marker':
            out = encode_packet(10, b'PGP') + out
            ctx.perturb('marker')
            changed = True
        elif k == 'v3sig':
            # a well-formed version 3 certification (PGP 2.x / 5.x style) in front of the first signature of every user id and
            # subkey: a reader that does not implement it passes over that one packet - and keeps everything behind it
            v3 = encode_packet(2, bytes([3, 5, 0x10]) + (1_000_000_000).to_bytes(4, 'big') + bytes(range(8)) + bytes([1, 2, 0xAB, 0xCD])
                               + (1021).to_bytes(2, 'big') + bytes([0x1F]) + bytes(127))
            pk = split_packets(out)
            res = bytearray()
            for i, p in enumerate(pk):
                res += p.raw
                if p.tag in (13, 14, 7) and i + 1 < len(pk) and pk[i + 1].tag == 2:
                    res += v3
            out = bytes(res)
            ctx.perturb('v3sig')
            changed = True
    if armor:
        text = own_armor if (own_armor is not None and not changed) else rarmor.enarmor(label, out)
        if 'crlf' in kinds:
            text = text.replace('\r\n', '\n').replace('\n', '\r\n')
            ctx.perturb('crlf')
        ctx.perturb('armor')
        return text
    return out


# ---------------------------------------------------------------------------
# shared oracles
# ---------------------------------------------------------------------------
def expected_components(mk, exported=True):
    """Per component the multiset of signature packets the model says are attached (and exported)."""
    out = {'primary': sorted(s.packet for s in mk.direct if (s.exportable or not exported))}
    for u in mk.live_uids():
        out[(u.kind, u.octets)] = sorted(s.packet for s in u.sigs if (s.exportable or not exported))
    for sk in mk.subs:
        out[('sub', sk.fp)] = sorted(s.packet for s in sk.sigs if (s.exportable or not exported))
    return out


def observed_components(keybytes):
    """The reference peer's structural reading of an export (first transferable key)."""
    tk = rtkey.parse_keys(keybytes)[0]
    out = {'primary': sorted(encode_packet(2, b) for b in tk.direct)}
    for c in tk.uids:
        octs = c.pkt.body if c.kind == 'uid' else _image_of(c.pkt.body)
        out[(c.kind, octs)] = sorted(encode_packet(2, b) for b in c.sigs)
    for c in tk.subkeys:
        out[('sub', c.key.fingerprint)] = sorted(encode_packet(2, b) for b in c.sigs)
    return tk, out


def _image_of(ua_body):
    # one image subpacket: length, type 1, 16-octet image header, image
    from .ref.wire import split_subpackets
    sp = split_subpackets(ua_body)
    return sp[0].body[16:] if sp and sp[0].type == 1 else ua_body


def norm_packets(pkts):
    """signature packets compared by body (framing may differ after a hop)"""
    return sorted(split_packets(p)[0].body for p in pkts)
