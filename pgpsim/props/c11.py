"""C11 - the cleartext signature framework preserves the text and the signature.

Cleartext messages over an adversarial line alphabet are signed by 1-2 PGPy
signers (every signing algorithm, every usable hash), written out, sent over a
channel that behaves like a mail gateway - strips or adds trailing blanks, turns LF
into CRLF (P5: the transformations RFC 4880 7.1 exists to survive) - or changes
one visible character (malign), read back and verified.  The reference peer
canonicalises per 7.1 independently and verifies PGPy's output; it also
cleartext-signs the same kind of text and PGPy must verify."""
import copy

from .. import bridge, seams, sigworld, world
from ..ref import armor as rarmor, keys as rkeys, sigs as rsigs
from ..ref.wire import WireError, encode_packet, split_packets
from .c05 import make_ref_key

ID = 'C11'
RULE = ('cases are 2-6 cleartext messages built from an adversarial line alphabet, signed by PGPy or by the reference peer, each '
        'delivered unchanged, through 1-2 mail-gateway transformations, and once with a changed visible character; a run is '
        'non-trivial when a text containing a line that needs dash-escaping or trailing blanks or CRLF crossed a transforming '
        'hop and both implementations judged it; distinct = distinct (line-class set, signer, transformations) tuples')
TIERS = {"quick": {"runs": 6000, "budget_s": 80}, "thorough": {"runs": 200000, "budget_s": 1500}}
PROBES = ('line_dash', 'line_dash_space', 'line_from', 'line_armor_like', 'line_empty', 'trailing_blanks', 'crlf_in_text', 'no_final_newline',
          'empty_text', 'non_ascii', 'long_line', 'two_signers', 'gateway_crlf', 'gateway_strip_blanks', 'gateway_add_blanks', 'ref_signed',
          'visible_change_rejected', 'hash_header_checked', 'non_latin1', 'lone_cr', 'odd_line_break', 'odd_trailing_whitespace', 'cosigned_after_reload')
LINES = ['plain text line', '- dash then space', '-dash', '--', '-----BEGIN PGP SIGNATURE-----', '-----BEGIN PGP SIGNED MESSAGE-----',
         'From the start of line', '', '', 'trailing space ', 'trailing tab\t', 'both \t ', ' leading', 'ünï cödé', 'x' * 300,
         '- ', 'Hash: SHA256', 'a: b', '=abcd', 'snow ☃ man', 'Ã© is not é', '日本語 € ', 'Â© 2024 Ã\x89ditions', 'The fee is Â£5, Ã\xa0 bientÃ´t',
         'form\x0cfeed', 'next\x85line', 'vertical\x0btab', 'sep\u2028arator', 'lone\r-cr then dash', 'x\r-----BEGIN PGP SIGNATURE-----\ry',
         '{"json": {"a": [1, 2]}}', 'set {x | x > 0}', '{{doubled}} braces', '{signature:s} {hhdr:s} {0} {}', 'closing } only',
         'page break\x0c', 'col\x0b', 'no-break\xa0', 'no-break then blanks\xa0 \t', 'ideographic\u3000', 'thin\u2009', 'unit sep\x1f', 'nel\x85',
         # text that is not in composed normal form: the octets signed are the octets given
         'cafe\u0301 de\u0301compose\u0301', '\u2126 ohm, \u212b angstrom, \u212a kelvin', 'compat \uf900\ufa0e', '\u1112\u1161\u11ab jamo']


def gen_text(rng, non_ascii=True):
    n = rng.choice([0, 1, 1, 2, 3, 5, 8])
    pool = LINES if non_ascii else [ln for ln in LINES if all(ord(c) < 128 for c in ln)]
    lines = [rng.choice(pool) for _ in range(n)]
    eol = rng.choice(['\n', '\n', '\n', '\r\n'])
    if lines and rng.random() < 0.2:
        # mixed line endings inside one text
        text = ''.join(ln + rng.choice(['\n', '\r\n']) for ln in lines[:-1]) + lines[-1]
        ctx_mixed = True
    else:
        text = eol.join(lines)
    if lines and rng.random() < 0.5:
        text += eol
    return text


def generate(rng, tier):
    steps = []
    # texts with lines outside ASCII (once a known finding, repaired in /repo fd865f1; reported as C11:non-ascii-cleartext:load)
    non_ascii = rng.random() < 0.3
    for i in range(rng.randint(2, 6 if tier == 'thorough' else 4)):
        steps.append({'id': 's%d' % i, 'op': rng.choice(['pgpy_sign', 'pgpy_sign', 'ref_sign']), 'text': gen_text(rng, non_ascii),
                      'hash': rng.choice([8, 8, 10, 9, 11, 2, 1]), 'nsigners': rng.choice([1, 1, 2]),
                      'gateway': rng.sample(['crlf', 'strip_blanks', 'add_blanks'], rng.choice([0, 1, 1, 2])),
                      'as_bytes': rng.random() < 0.3, 'change_pos': rng.random(),
                      'deliver': rng.choice(['str', 'str', 'bytes', 'bytearray', 'file']), 'cosign_reload': rng.random() < 0.3})
    return {'config': {'keys': {'k0': {'alg': rng.choice(['ed25519', 'ed25519', 'p256', 'p384', 'rsa2048' if rng.random() < 0.15 else 'ed25519', 'dsa2048' if rng.random() < 0.1 else 'secp256k1']),
                                       'uids': [['Clear Signer', '', 'c@example.org']], 'subkeys': [], 'usage': 'CS', 'created_us': 1_500_000_000_000_000},
                                'k1': {'alg': 'ed25519', 'uids': [['Second Signer', '', 'd@example.org']], 'subkeys': [], 'usage': 'CS',
                                       'created_us': 1_500_000_000_000_000}},
                       'refkey': rng.choice(['ed25519', 'p256', 'rsa2048' if rng.random() < 0.2 else 'ed25519']), 'start_us': 1_600_000_000_000_000},
            'steps': steps}


def simplify(case):
    for i, s in enumerate(case['steps']):
        lines = s['text'].replace('\r\n', '\n').split('\n')
        if len(lines) > 1:
            for j in range(len(lines)):
                c = copy.deepcopy(case)
                c['steps'][i]['text'] = '\n'.join(lines[:j] + lines[j + 1:])
                yield c
        if s.get('gateway'):
            c = copy.deepcopy(case)
            c['steps'][i]['gateway'] = []
            yield c
        for f, v in (('nsigners', 1), ('hash', 8), ('as_bytes', False)):
            if s.get(f) != v:
                c = copy.deepcopy(case)
                c['steps'][i][f] = v
                yield c


def classify(text, ctx):
    cls = set()
    lines = text.replace('\r\n', '\n').split('\n')
    for ln in lines:
        if ln.startswith('- '):
            cls.add('line_dash_space')
        elif ln.startswith('-----'):
            cls.add('line_armor_like')
        elif ln.startswith('-'):
            cls.add('line_dash')
        if ln.startswith('From '):
            cls.add('line_from')
        if ln == '' and len(lines) > 1:
            cls.add('line_empty')
        if ln.endswith(' ') or ln.endswith('\t'):
            cls.add('trailing_blanks')
        if len(ln) > 200:
            cls.add('long_line')
        if any(ord(c) > 127 for c in ln):
            cls.add('non_ascii')
        if any(ord(c) > 255 for c in ln):
            cls.add('non_latin1')
        if '\r' in ln:
            cls.add('lone_cr')
        if ln and ln[-1].isspace() and ln[-1] not in ' \t\r' or ln.rstrip(' \t')[-1:].isspace() and ln.rstrip(' \t')[-1:] not in ('\r', ''):
            cls.add('odd_trailing_whitespace')
        if any(c in ln for c in '\x0b\x0c\x1c\x1d\x1e\x85\u2028\u2029'):
            cls.add('odd_line_break')
    if '\r\n' in text:
        cls.add('crlf_in_text')
    if text == '':
        cls.add('empty_text')
    if text and not text.endswith('\n'):
        cls.add('no_final_newline')
    for c in cls:
        ctx.probe(c)
    return cls


def gateway(armored, kinds, ctx):
    """mail-gateway transformations applied to the signed-text part only (never to the signature armor)"""
    head, sep, tail = _split_at_signature(armored)
    lines = head.split('\n')
    # lines[0] is the BEGIN line, then headers, blank line, then the dash-escaped text
    try:
        blank = lines.index('', 1)
    except ValueError:
        return armored
    body = lines[blank + 1:]
    for k in kinds:
        if k == 'strip_blanks':
            body = [ln.rstrip(' \t') if not ln.endswith('\r') else ln[:-1].rstrip(' \t') + '\r' for ln in body]
            ctx.probe('gateway_strip_blanks')
            ctx.perturb('strip_blanks')
        elif k == 'add_blanks':
            body = [((ln[:-1] + '  \r') if ln.endswith('\r') else (ln + '  ')) if (ln.strip('\r') and i % 2 == 0 and i < len(body) - 1) else ln
                    for i, ln in enumerate(body)]
            ctx.probe('gateway_add_blanks')
            ctx.perturb('add_blanks')
    out = '\n'.join(lines[:blank + 1] + body) + sep + tail
    if 'crlf' in kinds:
        out = out.replace('\r\n', '\n').replace('\n', '\r\n')
        ctx.probe('gateway_crlf')
        ctx.perturb('crlf')
    return out


def execute(case, ctx):
    import pgpy
    cfg = case['config']
    seams.clock().set(cfg['start_us'])
    w = sigworld.SigWorld(cfg['keys'], ctx)
    rbody, ralg, rsecret = make_ref_key(cfg['refkey'], 1_500_000_000, b'', case['run_seed'], label='c11ref')
    rpub = rkeys.parse_pub(rbody)
    ref_tkb = bridge.build_ref_tkey(rbody, ralg, rsecret, b'Reference Clearsigner <r@example.org>', 1_500_000_000)
    ref_pgpy_key = pgpy.PGPKey.from_blob(ref_tkb)[0]
    shapes = []
    for st in case['steps']:
        ctx.step = st['id']
        ctx.steps_done += 1
        seams.rnd().set_step(st['id'])
        cls = classify(st['text'], ctx)
        if st['op'] == 'pgpy_sign':
            _pgpy_sign(pgpy, w, st, ctx, cls, shapes)
        else:
            _ref_sign(pgpy, ref_pgpy_key, rpub, rsecret, st, ctx, cls, shapes)
    if shapes:
        ctx.mark_nontrivial('|'.join(shapes))


def _load(pgpy, armored, st):
    how = st.get('deliver') or ('bytes' if st.get('as_bytes') else 'str')
    if how == 'file':
        p = seams.SimFS.ROOT + 'c11-%s.asc' % st['id']
        seams.fs().write(p, armored.encode('utf-8'))
        return pgpy.PGPMessage.from_file(p)
    blob = {'str': armored, 'bytes': armored.encode('utf-8'), 'bytearray': bytearray(armored.encode('utf-8'))}[how]
    return pgpy.PGPMessage.from_blob(blob)


def _pgpy_sign(pgpy, w, st, ctx, cls, shapes):
    C = pgpy.constants
    text = st['text']
    signers = [w.keys['k0']] + ([w.keys['k1']] if st['nsigners'] > 1 else [])
    if len(signers) > 1:
        ctx.probe('two_signers')
    try:
        msg = pgpy.PGPMessage.new(text, cleartext=True)
        for s in signers:
            msg |= s.sign(msg, hash=C.HashAlgorithm(st['hash']))
        armored = str(msg)
    except Exception as e:
        ctx.viol('C11:cannot-sign:%s' % type(e).__name__, 'PGPy cannot cleartext-sign or write a text (%s): %s' % (sorted(cls), e))
    # ---- what was written: dash escapes, Hash header, independent verification
    ctx.checked()
    try:
        blk = rarmor.dearmor(armored)
    except rarmor.ArmorError as e:
        ctx.viol('C11:output-unreadable', 'the reference peer cannot read PGPy\'s cleartext message: %s (%s)' % (e, sorted(cls)))
    if blk.cleartext is None:
        ctx.viol('C11:output-not-cleartext', 'output is not a cleartext signed message')
    want_lines = text.replace('\r\n', '\n').split('\n')
    got_lines = [ln[:-1] if ln.endswith('\r') else ln for ln in blk.cleartext.split('\n')]
    if got_lines != want_lines:
        ctx.viol('C11:written-text-differs', 'the dash-unescaped text in the output differs from the text that was signed (%d vs %d lines)'
                 % (len(got_lines), len(want_lines)))
    for raw, ln in zip(blk.cleartext_raw_lines, want_lines):
        if ln.startswith('-') and not raw.startswith('- '):
            ctx.viol('C11:dash-escape-missing', 'a line starting with a dash was written without dash-escape')
    ctx.probe('hash_header_checked')
    want_hash = sorted(set({1: 'MD5', 2: 'SHA1', 3: 'RIPEMD160', 8: 'SHA256', 9: 'SHA384', 10: 'SHA512', 11: 'SHA224'}[st['hash']] for _ in signers))
    if sorted(blk.hash_headers) != want_hash:
        ctx.viol('C11:hash-header', 'Hash: header is %s, signatures use %s' % (blk.hash_headers, want_hash))
    signed = rarmor.cleartext_signed_octets(blk.cleartext)
    nsig = 0
    for p, s in zip(split_packets(blk.payload), signers):
        sg = rsigs.parse_sig(p.body)
        tk = bridge.ref_tkey(bytes(s.pubkey))
        signer = bridge.find_signer(tk, sg)
        nsig += 1
        ctx.checked()
        if sg.type != 0x01:
            ctx.viol('C11:signature-type', 'cleartext signature has type 0x%02x, must be 0x01' % sg.type)
        if signer is None or not rsigs.verify(sg, signer, signed):
            ctx.viol('C11:ref-rejects:%s' % ('trailing-blanks' if 'trailing_blanks' in cls else 'crlf' if 'crlf_in_text' in cls else 'other'),
                     'the reference peer (RFC 4880 7.1 canonicalisation) rejects PGPy\'s cleartext signature over a text with %s' % sorted(cls))
    if nsig != len(signers):
        ctx.viol('C11:signature-count', '%d signatures written, %d signers' % (nsig, len(signers)))
    # ---- read back unchanged
    _verify_after(pgpy, ctx, armored, [s.pubkey for s in signers], st, cls, text, 'unchanged', True)
    # ---- through the gateway
    if st.get('gateway'):
        _verify_after(pgpy, ctx, gateway(armored, st['gateway'], ctx), [s.pubkey for s in signers], st, cls, text, '+'.join(sorted(st['gateway'])), False)
    # ---- read back, co-signed by another signer with another hash, written again: the header names every hash in use
    if st.get('cosign_reload') and 'non_ascii' not in cls:
        other = w.keys['k1'] if len(signers) == 1 else w.keys['k0']
        h2 = {8: 10, 10: 8, 9: 8, 11: 10, 2: 8, 1: 8}[st['hash']]
        names = {1: 'MD5', 2: 'SHA1', 3: 'RIPEMD160', 8: 'SHA256', 9: 'SHA384', 10: 'SHA512', 11: 'SHA224'}
        ctx.checked()
        ctx.probe('cosigned_after_reload')
        try:
            m2 = _load(pgpy, armored, st)
            m2 |= other.sign(m2, hash=C.HashAlgorithm(h2))
            blk2 = rarmor.dearmor(str(m2))
            have = sorted(set(blk2.hash_headers))
            want = sorted({names[st['hash']], names[h2]})
            if have != want:
                ctx.viol('C11:hash-header:after-reload', 'after reading the message back and adding a %s signature the Hash: header is %s, the signatures use %s'
                         % (names[h2], have, want))
        except rarmor.ArmorError as e:
            ctx.viol('C11:output-unreadable', 'the reference peer cannot read the co-signed message: %s' % e)
        except Exception as e:
            ctx.event(st['id'], 'cosign-reload-raised', type(e).__name__)
    # ---- one visible character changed: must fail
    _changed(pgpy, ctx, armored, [s.pubkey for s in signers], st)
    shapes.append('P:%s:%s' % (','.join(sorted(cls)), '+'.join(sorted(st.get('gateway', [])))))
    ctx.event(st['id'], 'pgpy_sign', len(signers), sorted(cls))


def _verify_after(pgpy, ctx, armored, pubs, st, cls, text, how, exact):
    ctx.checked()
    try:
        m = _load(pgpy, armored, st)
    except Exception as e:
        ctx.viol('C11:non-ascii-cleartext:load' if 'non_ascii' in cls else 'C11:cannot-read-back:%s' % how,
                 'PGPy cannot load the cleartext message (%s, delivered as %s, text classes %s): %s: %s'
                 % (how, st.get('deliver') or ('bytes' if st.get('as_bytes') else 'str'), sorted(cls), type(e).__name__, e))
        return
    if exact and m.message != text:
        ctx.viol('C11:non-ascii-cleartext:load' if 'non_ascii' in cls else 'C11:text-read-back-differs',
                 'text read back differs from the text written (classes %s)' % sorted(cls))
    if len(m.signatures) != len(pubs):
        ctx.viol('C11:non-ascii-cleartext:load' if 'non_ascii' in cls else 'C11:signatures-read-back', '%d signatures read back, %d written' % (len(m.signatures), len(pubs)))
    for pub in pubs:
        try:
            ok = bool(pub.verify(m))
        except Exception as e:
            ok = e
        if ok is not True:
            ctx.viol('C11:non-ascii-cleartext:load' if 'non_ascii' in cls else 'C11:does-not-verify:%s' % how, 'the cleartext signature does not verify after the hop (%s; text classes %s): %r' % (how, sorted(cls), ok))


def _split_at_signature(armored):
    """the signature armor starts at the last line that *begins* with the BEGIN marker (the same words
    inside the text are dash-escaped)"""
    marker = '\n-----BEGIN PGP SIGNATURE-----'
    i = armored.rfind(marker)
    if i < 0:
        return armored, '', ''
    return armored[:i + 1], '-----BEGIN PGP SIGNATURE-----', armored[i + len(marker):]


def _changed(pgpy, ctx, armored, pubs, st):
    head, sep, tail = _split_at_signature(armored)
    idx = head.find('\n\n')
    if idx < 0:
        return
    body = head[idx + 2:]
    vis = [i for i, ch in enumerate(body) if ch.isalnum()]
    if not vis:
        return
    i = vis[int(st['change_pos'] * len(vis)) % len(vis)]
    nb = body[:i] + ('X' if body[i] != 'X' else 'Y') + body[i + 1:]
    mut = head[:idx + 2] + nb + sep + tail
    ctx.fault('visible_change')
    ctx.checked()
    try:
        m = _load(pgpy, mut, st)
        ok = all(bool(p.verify(m)) for p in pubs)
    except Exception:
        ok = False
    if ok:
        ctx.viol('C11:changed-text-verifies', 'a cleartext message with one visible character changed still verifies')
    ctx.probe('visible_change_rejected')


def _ref_sign(pgpy, ref_pgpy_key, rpub, rsecret, st, ctx, cls, shapes):
    text = st['text']
    ctx.probe('ref_signed')
    signed = rarmor.cleartext_signed_octets(text)
    hashed = rsigs.sp_created(1_590_000_000) + rsigs.sp_issuer_fpr(rpub.fingerprint)
    body = rsigs.sign(0x01, rpub, rsecret, st['hash'], hashed, rsigs.sp_issuer(rpub.keyid), signed)
    hname = {1: 'MD5', 2: 'SHA1', 3: 'RIPEMD160', 8: 'SHA256', 9: 'SHA384', 10: 'SHA512', 11: 'SHA224'}[st['hash']]
    armored = rarmor.make_cleartext(text.replace('\r\n', '\n'), encode_packet(2, body), [hname])
    for how, kinds in (('unchanged', []), ('+'.join(sorted(st.get('gateway', []))), st.get('gateway', []))):
        if how != 'unchanged' and not kinds:
            continue
        wire = gateway(armored, kinds, ctx) if kinds else armored
        ctx.checked()
        try:
            m = _load(pgpy, wire, st)
        except Exception as e:
            ctx.viol('C11:non-ascii-cleartext:load' if 'non_ascii' in cls else 'C11:cannot-read-foreign:%s' % how,
                     'PGPy cannot load a reference-peer cleartext message (%s, classes %s): %s: %s' % (how, sorted(cls), type(e).__name__, e))
            continue
        try:
            ok = bool(ref_pgpy_key.verify(m))
        except Exception as e:
            ok = e
        if ok is not True:
            ctx.viol('C11:non-ascii-cleartext:load' if 'non_ascii' in cls else
                     'C11:foreign-does-not-verify:%s:%s' % (how, 'trailing-blanks' if 'trailing_blanks' in cls else 'other'),
                     'PGPy does not verify a reference-peer cleartext signature (%s; text classes %s): %r' % (how, sorted(cls), ok))
    shapes.append('R:%s:%s' % (','.join(sorted(cls)), '+'.join(sorted(st.get('gateway', [])))))
    ctx.event(st['id'], 'ref_sign', sorted(cls))
