"""C04 - ciphertext integrity: tampered or mis-keyed encrypted messages never decrypt.

Producers (PGPy and the reference peer) make integrity-protected messages for
generated recipient sets; the channel delivers each one with exactly one fault:
bit flips in every region (ESK fields, SEIPD version, body, MDC, packet headers),
truncation and extension, block swaps, splices between two messages to the same
recipients, replaced MDC, dropped / duplicated / reordered / foreign ESK packets, a
second container; or the receiver uses a wrong credential.  Oracle: every decrypt
either raises or returns exactly what was encrypted; a wrong passphrase or a
non-recipient key always raises."""
import copy

from .. import encworld, seams
from ..core import CallTimeout, watchdog
from ..ref import algo as ralgo, enc as renc, keys as rkeys
from ..ref.wire import WireError, encode_packet, split_packets

ID = 'C04'
RULE = ('cases are 1-4 exchanges; each exchange encrypts one generated message (PGPy or reference peer as producer) to 1-3 '
        'recipients and delivers it 3-10 times with one fault each (quick: drawn positions; thorough: additionally a full '
        'single-bit sweep of small messages), every recipient decrypting each delivery; a run is non-trivial when at least one '
        'faulted delivery reached a decrypt call; distinct = distinct (producer, recipient kinds, fault kind) sets among '
        'non-trivial runs')
TIERS = {"quick": {"runs": 6000, "budget_s": 90}, "thorough": {"runs": 150000, "budget_s": 1500}}
PROBES = ('protected_recipient', 'wrong_credential_on_live_object', 'fault_raised', 'fault_same_plaintext', 'fault_not_encrypted_refusal', 'wrong_pass_raised', 'non_recipient_raised',
          'splice_two_messages', 'sweep_bits', 'producer_ref', 'producer_pgpy', 'multi_recipient')
FAULTS = ('flip_esk', 'flip_esk', 'flip_version', 'flip_body', 'flip_body', 'flip_mdc', 'flip_header', 'flip_prefix_repeat', 'truncate_raw', 'truncate_reframed',
          'extend_inside', 'extend_after', 'swap_blocks', 'splice_container', 'splice_esk', 'mdc_swap', 'drop_esk', 'dup_esk',
          'reorder_esk', 'second_container', 'inject_plain', 'wrong_pass', 'non_recipient')
# not generated: re-labelling the container as a legacy tag-9 packet ("downgrade").  PGPy, like RFC 4880, accepts
# packets without integrity protection; what comes out of one is not covered by a property about integrity-
# protected messages (an earlier version of this check raised an alarm on it under VERIF_SEED=1; removed as unsound).


def generate(rng, tier):
    rcfg = encworld.gen_recipients(rng, n=rng.choice([2, 2, 3]), heavy=0.06)
    names = sorted(rcfg)
    steps = []
    for i in range(rng.randint(1, 4 if tier == 'thorough' else 3)):
        nrec = rng.choice([1, 1, 2, 3])
        recips = []
        for _ in range(nrec):
            recips.append(['key', rng.choice(names)] if rng.random() < 0.65 else ['pass', rng.choice(encworld.PASSPHRASES[:4])])
        seen = set()
        recips = [x for x in recips if not (tuple(x) in seen or seen.add(tuple(x)))]
        spec = encworld.gen_message_spec(rng)
        spec['size'] = min(spec['size'], 600) if rng.random() < 0.8 else spec['size']
        nf = rng.choice([3, 4, 6]) if tier == 'quick' else rng.choice([4, 8, 10])
        steps.append({'id': 's%d' % i, 'op': 'exchange', 'producer': rng.choice(['pgpy', 'pgpy', 'ref']), 'msg': spec, 'recips': recips,
                      'cipher': rng.choice(encworld.CIPHERS), 'signed_by': rng.choice(names) if rng.random() < 0.2 else None,
                      'faults': [{'kind': rng.choice(FAULTS), 'pos': rng.random(), 'bit': rng.randrange(8), 'alt': rng.randrange(1 << 16)}
                                 for _ in range(nf)],
                      'sweep': tier == 'thorough' and rng.random() < 0.04})
    # some recipients keep their key passphrase-protected and decrypt inside (nested) unlock scopes
    protected = [n for n in names if not rcfg[n].get('foreign') and rng.random() < 0.25]
    return {'config': {'recipients': rcfg, 's2k_count': rng.choice([0, 16, 16, 96]), 'start_us': 1_600_000_000_000_000,
                       'protected': protected}, 'steps': steps}


def simplify(case):
    for i, s in enumerate(case['steps']):
        if len(s['faults']) > 1:
            for j in range(len(s['faults'])):
                c = copy.deepcopy(case)
                c['steps'][i]['faults'] = [s['faults'][j]]
                c['steps'][i]['sweep'] = False
                yield c
        if len(s['recips']) > 1:
            for j in range(len(s['recips'])):
                c = copy.deepcopy(case)
                del c['steps'][i]['recips'][j]
                yield c
        if s['msg']['size'] > 3:
            c = copy.deepcopy(case)
            c['steps'][i]['msg']['size'] = 3
            yield c
        if s['msg']['compression'] or s.get('signed_by'):
            c = copy.deepcopy(case)
            c['steps'][i]['msg']['compression'] = 0
            c['steps'][i]['signed_by'] = None
            yield c
        if s['cipher'] != 9:
            c = copy.deepcopy(case)
            c['steps'][i]['cipher'] = 9
            yield c
        if s['producer'] != 'pgpy':
            c = copy.deepcopy(case)
            c['steps'][i]['producer'] = 'pgpy'
            yield c


# ---------------------------------------------------------------------------
def _layout(data):
    """[(pkt, start, body_start, end)] for top-level packets"""
    out = []
    off = 0
    for p in split_packets(data):
        h = len(p.raw) - len(p.body)
        out.append((p, off, off + h, off + len(p.raw)))
        off += len(p.raw)
    return out


def _rebuild(pkts):
    return b''.join(encode_packet(t, b) for t, b in pkts)


def apply_fault(enc, other, f, bs):
    """Returns mutated bytes or None if the fault does not apply.  `other`: a second message to the
    same recipients (for splices)."""
    lay = _layout(enc)
    esks = [x for x in lay if x[0].tag in (1, 3)]
    cont = [x for x in lay if x[0].tag == 18]
    if not cont:
        return None
    c, c0, cb, c1 = cont[0]
    k = f['kind']
    pos, bit = f['pos'], f['bit']
    m = bytearray(enc)

    def flip(a, b):
        if b <= a:
            return None
        m[a + int(pos * (b - a)) % (b - a)] ^= 1 << bit
        return bytes(m)

    if k == 'flip_esk':
        if not esks:
            return None
        p, s0, sb, s1 = esks[f['alt'] % len(esks)]
        return flip(sb, s1)
    if k == 'flip_version':
        return flip(cb, cb + 1)
    if k == 'flip_body':
        return flip(cb + 1, c1)
    if k == 'flip_prefix_repeat':
        # the two octets that repeat the end of the random prefix (the "quick check" of RFC 4880 5.7 / 5.13)
        return flip(cb + 1 + bs, cb + 1 + bs + 2) if c1 - cb > bs + 3 else None
    if k == 'flip_mdc':
        return flip(max(cb + 1, c1 - 22), c1)
    if k == 'flip_header':
        x = lay[f['alt'] % len(lay)]
        return flip(x[1], x[2])
    if k == 'truncate_raw':
        cut = cb + 1 + int(pos * (c1 - cb - 1))
        return bytes(m[:cut])
    if k == 'truncate_reframed':
        body = c.body[:1 + int(pos * (len(c.body) - 1))]
        return enc[:c0] + encode_packet(18, body)
    if k == 'extend_inside':
        return enc[:c0] + encode_packet(18, c.body + bytes([f['alt'] & 0xFF]) * (1 + f['bit']))
    if k == 'extend_after':
        return enc + encode_packet(11, b'b\x00\x00\x00\x00\x00injected')
    if k == 'swap_blocks':
        n = (len(c.body) - 1) // bs
        if n < 3:
            return None
        i = int(pos * n) % n
        j = (i + 1 + f['alt'] % (n - 1)) % n
        b = bytearray(c.body)
        bi, bj = b[1 + i * bs:1 + (i + 1) * bs], b[1 + j * bs:1 + (j + 1) * bs]
        if bi == bj:
            return None
        b[1 + i * bs:1 + (i + 1) * bs], b[1 + j * bs:1 + (j + 1) * bs] = bj, bi
        return enc[:c0] + encode_packet(18, bytes(b))
    if k in ('splice_container', 'splice_esk', 'mdc_swap'):
        if other is None:
            return None
        ol = _layout(other)
        oc = [x for x in ol if x[0].tag == 18]
        oe = [x for x in ol if x[0].tag in (1, 3)]
        if not oc:
            return None
        if k == 'splice_container':
            return enc[:c0] + oc[0][0].raw
        if k == 'splice_esk':
            return b''.join(x[0].raw for x in oe) + c.raw
        ob = oc[0][0].body
        if len(ob) < 23 or len(c.body) < 23:
            return None
        return enc[:c0] + encode_packet(18, c.body[:-22] + ob[-22:])
    if k == 'drop_esk':
        if len(esks) < 1:
            return None
        d = esks[f['alt'] % len(esks)]
        return enc[:d[1]] + enc[d[3]:]
    if k == 'dup_esk':
        if not esks:
            return None
        d = esks[f['alt'] % len(esks)]
        return enc[:d[1]] + d[0].raw + enc[d[1]:]
    if k == 'reorder_esk':
        if len(esks) < 2:
            return None
        raws = [x[0].raw for x in esks]
        raws = raws[1:] + raws[:1]
        return b''.join(raws) + c.raw
    if k == 'inject_plain':
        # an unencrypted literal data packet in front of the container: at the very start, or after any of the session-key packets
        spots = [0] + [x[3] for x in esks]
        at = spots[f['alt'] % len(spots)]
        return enc[:at] + encode_packet(11, b'b\x00\x00\x00\x00\x00injected plaintext') + enc[at:]
    if k == 'second_container':
        return enc + encode_packet(18, b'\x01' + bytes(40))
    if k == 'strip_mdc_to_sed':
        # downgrade: present the ciphertext as a legacy (tag 9) packet without the version octet
        return enc[:c0] + encode_packet(9, c.body[1:])
    return None


def execute(case, ctx):
    import pgpy
    cfg = case['config']
    R = encworld.Recipients(cfg['recipients'])
    R.protected = {}
    for n in cfg.get('protected', []):
        if n in R.keys:
            try:
                R.keys[n].protect('c04 recipient pw', pgpy.constants.SymmetricKeyAlgorithm.AES128, pgpy.constants.HashAlgorithm.SHA256)
                R.protected[n] = 'c04 recipient pw'
                ctx.probe('protected_recipient')
            except Exception as e:
                ctx.event('setup', 'protect-raised', type(e).__name__)
    seams.clock().set(cfg.get('start_us', 1_600_000_000_000_000))
    names = sorted(R.keys)
    shapes = set()
    for step in case['steps']:
        ctx.step = step['id']
        ctx.steps_done += 1
        seams.rnd().set_step(step['id'])
        recips = [r for r in step['recips'] if r[0] == 'pass' or r[1] in R.keys]
        if not recips:
            continue
        made = _produce(pgpy, R, step, recips, ctx, 'a')
        if made is None:
            continue
        enc, orig_bytes, orig_shape = made
        other = None
        if any(f['kind'] in ('splice_container', 'splice_esk', 'mdc_swap') for f in step['faults']):
            st2 = copy.deepcopy(step)
            st2['msg']['seed'] += 1
            st2['msg']['size'] = max(st2['msg']['size'], 40)
            st2['msg']['body'] = 'binary'
            o = _produce(pgpy, R, st2, recips, ctx, 'b')
            other = o[0] if o else None
            if other:
                ctx.probe('splice_two_messages')
        if len(recips) > 1:
            ctx.probe('multi_recipient')
        bs = ralgo.block_size(step['cipher'])
        faults = list(step['faults'])
        heavy = any(k == 'key' and R.cfg[w_]['alg'].startswith('rsa') or
                    (k == 'key' and any(sk['alg'].startswith('rsa') for sk in R.cfg[w_]['subkeys'])) for k, w_ in recips)
        if step.get('sweep') and len(enc) <= 420 and not heavy:
            ctx.probe('sweep_bits')
            faults += [{'kind': '_sweep', 'bitpos': i} for i in range(len(enc) * 8)]
        for f in faults:
            if f['kind'] == '_sweep':
                mb = bytearray(enc)
                mb[f['bitpos'] // 8] ^= 1 << (f['bitpos'] % 8)
                _deliver(pgpy, R, bytes(mb), recips, orig_shape, 'sweep', ctx, step)
                continue
            live = getattr(R, 'last_live_enc', None) if step['producer'] == 'pgpy' and f['alt'] % 2 else None
            if f['kind'] == 'wrong_pass':
                wrongs = ['not the passphrase ' + str(f['alt']), 'correct horse ', 'X'][:1 + f['alt'] % 3]
                if live is not None:
                    _wrong_credential_live(pgpy, R, live, ('pass', wrongs[-1]), ctx)
                else:
                    _wrong_credential(pgpy, R, enc, ('pass', wrongs[-1]), recips, ctx)
                continue
            if f['kind'] == 'non_recipient':
                non = [n for n in names if ['key', n] not in recips]
                if non:
                    if live is not None:
                        _wrong_credential_live(pgpy, R, live, ('key', non[f['alt'] % len(non)]), ctx)
                    else:
                        _wrong_credential(pgpy, R, enc, ('key', non[f['alt'] % len(non)]), recips, ctx)
                continue
            try:
                mut = apply_fault(enc, other, f, bs)
            except (WireError, IndexError):
                mut = None
            if mut is None or mut == enc:
                continue
            ctx.fault(f['kind'])
            shapes.add('%s/%s/%s' % (step['producer'], '+'.join(sorted(k for k, _ in recips)), f['kind']))
            _deliver(pgpy, R, mut, recips, orig_shape, f['kind'], ctx, step)
        ctx.event(step['id'], 'exchange', step['producer'], len(recips), len(step['faults']))
    if shapes:
        ctx.mark_nontrivial(','.join(sorted(shapes)))


def _produce(pgpy, R, step, recips, ctx, tag):
    msg, data = encworld.make_message(pgpy, step['msg'])
    if step.get('signed_by') in R.keys:
        try:
            msg |= R.keys[step['signed_by']].sign(msg)
        except Exception:
            pass
    orig_bytes = bytes(msg)
    orig_shape = encworld.shape_of(orig_bytes)
    if orig_shape['errors']:
        return None
    cid = step['cipher']
    if step['producer'] == 'pgpy':
        ctx.probe('producer_pgpy')
        try:
            enc, _ = encworld.pgpy_encrypt(pgpy, msg, recips, R, cid)
            if tag == 'a':
                R.last_live_enc = enc
            return bytes(enc), orig_bytes, orig_shape
        except Exception as e:
            ctx.event(step['id'], 'encrypt-refused', type(e).__name__)
            return None
    ctx.probe('producer_ref')
    seed = lambda what, n: seams.derive(ctx.run_seed, step['id'] + tag, 'ref:' + what, n)
    key = seed('sk', ralgo.key_size(cid))
    out = bytearray()
    for j, (kind, who) in enumerate(recips):
        if kind == 'key':
            comps = encworld.rtkey.parse_keys(bytes(R.keys[who].pubkey))[0]
            cand = [c.key for c in comps.subkeys if c.key.alg in (rkeys.ECDH, rkeys.RSA_ES)] or [comps.pub]
            if cand[0].alg not in (rkeys.ECDH, rkeys.RSA_ES):
                return None
            out += encode_packet(1, renc.build_pkesk(cand[0], cid, key, seed('pk%d' % j, 600)))
        else:
            out += encode_packet(3, renc.build_skesk(cid, 3, 8, who, seed('salt%d' % j, 8), 16, (cid, key)))
    out += encode_packet(18, renc.seipd_encrypt(cid, key, orig_bytes, seed('prefix', ralgo.block_size(cid))))
    return bytes(out), orig_bytes, orig_shape


SWALLOWED = object()


def _decrypt(pgpy, R, wire, kind, who, intact=False):
    m = pgpy.PGPMessage.from_blob(wire)
    if kind == 'key':
        pw = getattr(R, 'protected', {}).get(who)
        if pw is not None:
            # a helper that unlocks for itself, called by code that already holds the key unlocked
            dec = SWALLOWED
            with R.keys[who].unlock(pw):
                with R.keys[who].unlock(pw):
                    dec = R.keys[who].decrypt(m)
            if dec is SWALLOWED:
                return dec           # decrypt() neither returned nor did its exception reach the caller
        else:
            dec = R.keys[who].decrypt(m)
        if dec is m:
            # "This message is not encrypted": the input is handed back with a warning, which counts as a refusal - unless
            # the delivered octets still hold the untouched encrypted container next to injected packets (intact): a reader
            # that presents such a stream as a plaintext message has silently dropped the ciphertext, and the outcome is
            # judged like any other
            if intact and not m.is_encrypted:
                return dec
            return None
        return dec
    return m.decrypt(who)


def _deliver(pgpy, R, mut, recips, orig_shape, fkind, ctx, step):
    for kind, who in recips:
        ctx.checked()
        try:
            with watchdog(30):
                dec = _decrypt(pgpy, R, mut, kind, who, intact=fkind in ('inject_plain', 'extend_after', 'second_container'))
                if dec is SWALLOWED:
                    ctx.viol('C04:failure-swallowed:%s' % fkind, 'after fault %s decrypt() inside nested unlock scopes neither returned a message nor raised: '
                             'the failure never reached the caller' % fkind)
                if dec is None:
                    ctx.probe('fault_not_encrypted_refusal')
                    continue
                if dec.is_encrypted:
                    # still an encrypted container: nothing was revealed
                    ctx.probe('fault_raised')
                    continue
                dec_bytes = bytes(dec)
        except CallTimeout:
            ctx.probe('pgpy_call_timeout')
            continue
        except Exception:
            ctx.probe('fault_raised')
            continue
        got = encworld.shape_of(dec_bytes, drop_mdc=True)
        diffs = [f for f in ('data', 'fmt', 'filename', 'mtime', 'compression', 'sigs') if got[f] != orig_shape[f]]
        if got['errors'] or diffs:
            ctx.viol('C04:wrong-plaintext:%s' % fkind,
                     'after fault %s the %s recipient\'s decrypt returned a message that differs from what was encrypted (%s)'
                     % (fkind, kind, diffs or got['errors'][:1]))
        ctx.probe('fault_same_plaintext')


def _wrong_credential(pgpy, R, enc, cred, recips, ctx):
    kind, who = cred
    if kind == 'pass' and not any(k == 'pass' for k, _ in recips):
        # no passphrase packet at all: PGPy raises for lack of candidates; still must raise
        pass
    ctx.fault('F7_' + kind)
    ctx.checked()
    try:
        dec = _decrypt(pgpy, R, enc, kind, who)
    except Exception:
        ctx.probe('wrong_pass_raised' if kind == 'pass' else 'non_recipient_raised')
        return
    if dec is SWALLOWED:
        ctx.viol('C04:failure-swallowed:non_recipient', 'a non-recipient key decrypting inside nested unlock scopes: the refusal never reached the caller')
    ctx.viol('C04:wrong-credential-accepted:%s' % kind,
             'decrypting with a %s that is not a recipient credential returned %s instead of raising'
             % ('passphrase' if kind == 'pass' else 'private key', 'the input' if dec is None else 'a message'))


def _wrong_credential_live(pgpy, R, live, cred, ctx):
    """the same on the message object encrypt() has just returned, without any trip through octets"""
    kind, who = cred
    ctx.fault('F7_' + kind)
    ctx.checked()
    ctx.probe('wrong_credential_on_live_object')
    try:
        dec = R.keys[who].decrypt(live) if kind == 'key' else live.decrypt(who)
    except Exception:
        ctx.probe('wrong_pass_raised' if kind == 'pass' else 'non_recipient_raised')
        return
    if dec is live and kind == 'key' and not live.is_encrypted:
        return
    ctx.viol('C04:wrong-credential-accepted:%s:live' % kind,
             'decrypting the message object returned by encrypt() with a %s that is not a recipient credential did not raise'
             % ('passphrase' if kind == 'pass' else 'private key'))
