"""C18 - fingerprints and key ids are the RFC 4880 values and are stable.

Monitor over every key of key-management histories: at creation (creation times
from a boundary set, given as UTC-aware, otherwise-aware and naive datetimes,
under varying TZ), after protect, inside unlock, for the public twin, a copy,
after export/import through the perturbing channel, and for keys encoded by the
reference peer (leading zero bits).  Oracle: fingerprint = SHA-1 over 0x99 ||
length || exported public body as computed by the reference peer; key id = low 64
bits; identical across all forms and the whole history; issuer, issuer-fingerprint
and recipient ids PGPy writes equal it."""
import copy

from .. import bridge, keyworld, seams, world
from ..ref import enc as renc, keys as rkeys, sigs as rsigs, tkey as rtkey
from ..ref.wire import WireError, encode_packet, split_packets
from .c05 import make_ref_key

ID = 'C18'
RULE = ('cases are key-management histories of 5-16 steps over 2-3 keys whose creation times come from a boundary set and are '
        'spelled as UTC-aware, otherwise-aware or naive datetimes, plus reference-peer-encoded keys; a run is non-trivial when a '
        'fingerprint was compared with the reference computation in at least four different forms (private, twin, protected, '
        'unlocked, copy, re-imported, foreign); distinct = distinct (step kinds, creation-time spellings)')
TIERS = {'quick': {'runs': 3000, 'budget_s': 80}, 'thorough': {'runs': 150000, 'budget_s': 1500}}
PROBES = ('foreign_mpi_bit_count_rounded_up', 'created_boundary', 'created_non_utc_aware', 'created_naive', 'form_private', 'form_twin', 'form_protected', 'form_unlocked',
          'form_copy', 'form_reimported', 'form_foreign', 'issuer_checked', 'recipient_checked', 'foreign_leading_zero_mpi', 'subkey_created_differs', 'third_party_issuer_checked')
WEIGHTS = {'add_subkey': 3.0, 'protect': 1.5, 'export_import': 2.0, 'copy_key': 1.5, 'derive_pub': 1.0, 'tick': 1.0, 'add_uid': 0.7,
           'recertify': 0.5, 'del_uid': 0.2, 'certify_other': 0.3, 'direct_other': 0.2, 'rebind_subkey': 0.5}
TIMES = [0, 1, 86399, 951782400, 1_400_000_000, 1_600_000_000, 2 ** 31 - 1, 2 ** 31, 2 ** 32 - 1]
TZS = [None, None, 'utc', [5, 30], [-8, 0], [13, 45], 'naive_utc']


def generate(rng, tier):
    keys = keyworld.gen_universe(rng)
    for k in keys.values():
        k['created_us'] = rng.choice(TIMES) * 1_000_000
        k['created_tz'] = rng.choice(TZS)
    knames = sorted(keys)
    n = rng.randint(5, 16 if tier == 'thorough' else 10)
    steps = []
    for i in range(n):
        s = keyworld.gen_step(rng, 's%d' % i, knames, WEIGHTS)
        if s['op'] == 'add_subkey':
            s['created_us'] = rng.choice(TIMES) * 1_000_000
            s['created_tz'] = rng.choice(TZS)
        if s['op'] == 'export_import' and rng.random() < 0.7:
            s['half'] = 'priv'
        steps.append(s)
    foreign = [{'kind': rng.choice(['ed25519', 'p256', 'p384', 'p521', 'secp256k1', 'rsa2048', 'dsa2048', 'cv25519']),
                'created': rng.choice(TIMES), 'mpi_slack': rng.random() < 0.5} for _ in range(rng.choice([0, 1, 2]))]
    return {'config': {'keys': keys, 'foreign': foreign, 'start_us': 1_600_000_000_000_000}, 'steps': steps}


def simplify(case):
    for k in sorted(case['config']['keys']):
        kk = case['config']['keys'][k]
        if kk['alg'] != 'ed25519':
            c = copy.deepcopy(case)
            c['config']['keys'][k]['alg'] = 'ed25519'
            yield c
        if kk.get('created_tz') not in (None, 'utc'):
            c = copy.deepcopy(case)
            c['config']['keys'][k]['created_tz'] = None
            yield c
    if case['config'].get('foreign'):
        c = copy.deepcopy(case)
        c['config']['foreign'] = []
        yield c


def check_fp(ctx, what, obj, form, seen, history, mk=None):
    """fingerprints of the object and of all its subkeys against the reference computation"""
    ctx.checked()
    if mk is not None:
        # the subkeys the key has been given, by the fingerprints they had when they were made: every form of the key
        # (copy, twin, protected, unlocked, re-imported) names the same ones
        want_subs = sorted(ms.fp.hex().upper() for ms in mk.subs)
        have_subs = sorted(str(sk.fingerprint).replace(' ', '') for sk in obj.subkeys.values())
        if want_subs != have_subs:
            ctx.viol('C18:subkey-fingerprint-changed:%s' % form, '%s: subkey fingerprints %s, the subkeys were made as %s'
                     % (what, [x[-16:] for x in have_subs], [x[-16:] for x in want_subs]))
    ctx.probe('form_' + form)
    seen.add(form)
    try:
        tk = bridge.ref_tkey(bytes(obj))
    except WireError as e:
        ctx.viol('C18:export-unreadable', '%s: %s' % (what, e))
        return
    comps = [(obj, tk.pub)]
    subs = {c.key.fingerprint: c.key for c in tk.subkeys}
    for sk in obj.subkeys.values():
        fpb = bytes.fromhex(str(sk.fingerprint))
        ref = subs.get(fpb)
        if ref is None:
            # which exported subkey is it? match by key id written in its position
            ctx.viol('C18:fingerprint-not-rfc:subkey:%s' % form,
                     '%s: a subkey\'s fingerprint %s is not SHA-1(0x99 || len || public body) of any exported subkey packet' % (what, str(sk.fingerprint)[-16:]))
            continue
        comps.append((sk, ref))
    want = tk.pub.fingerprint.hex().upper()
    if str(obj.fingerprint).replace(' ', '') != want:
        ctx.viol('C18:fingerprint-not-rfc:primary:%s' % form,
                 '%s: fingerprint %s differs from SHA-1(0x99 || len || exported public body) = %s' % (what, str(obj.fingerprint)[-16:], want[-16:]))
    for o, ref in comps:
        fp = str(o.fingerprint).replace(' ', '')
        if o.fingerprint.keyid != fp[-16:] or o.fingerprint.shortid != fp[-8:]:
            ctx.viol('C18:keyid-not-low-bits', '%s: key id / short id are not the low 64 / 32 bits of the fingerprint' % what)
    # stability over the history
    me = str(obj.fingerprint).replace(' ', '')
    if history.setdefault('fp', me) != me:
        ctx.viol('C18:fingerprint-changed:%s' % form, '%s: fingerprint changed during the history (%s -> %s)' % (what, history['fp'][-16:], me[-16:]))
    subset = frozenset(str(s.fingerprint) for s in obj.subkeys.values())
    for s in history.get('subs', frozenset()):
        if s not in subset and form not in ('twin',):
            pass            # subkeys are never removed in these histories, but a public-only hop may follow; not judged here
    history['subs'] = subset


def check_ids_written(ctx, what, pgpy, key, other=None):
    """issuer / issuer fingerprint / recipient ids in what the key emits"""
    C = pgpy.constants
    tk = bridge.ref_tkey(bytes(key))
    comps = {tk.pub.keyid: tk.pub}
    for c in tk.subkeys:
        comps[c.key.keyid] = c.key
    if other is not None and other is not key and not key.is_public and key.is_unlocked:
        # signatures over somebody else's key (a certification, a designated revoker's key revocation, a subkey revocation): they
        # are issued by this key's primary, whatever they are about; none of them is attached anywhere
        opub = other if other.is_public else other.pubkey
        made = []
        for label, fn in (('key revocation over another key', lambda: key.revoke(opub)),
                          ('certification of another key\'s user id', lambda: key.certify(opub.userids[0]) if opub.userids else None),
                          ('direct-key signature over another key', lambda: key.certify(opub)),
                          ('revocation of another key\'s subkey', lambda: key.revoke(list(opub.subkeys.values())[0]) if opub.subkeys else None)):
            try:
                sg = fn()
            except Exception:
                sg = None
            if sg is not None:
                made.append((label, sg))
        for label, sg in made:
            ctx.probe('third_party_issuer_checked')
            ctx.checked()
            rs = bridge.ref_sig(bytes(sg))
            if rs.issuer is not None and rs.issuer != tk.pub.keyid:
                ctx.viol('C18:third-party-issuer-id', '%s: a %s names key id %s as Issuer, the signing key\'s id is %s'
                         % (what, label, rs.issuer.hex(), tk.pub.keyid.hex()))
            if rs.issuer_fpr is not None and rs.issuer_fpr != tk.pub.fingerprint:
                ctx.viol('C18:third-party-issuer-fingerprint', '%s: a %s carries an Issuer Fingerprint that is not the signing key\'s' % (what, label))
            if rs.issuer is not None and sg.signer != rs.issuer.hex().upper():
                ctx.viol('C18:issuer-attribute-mismatch', '%s: PGPSignature.signer of a %s differs from its Issuer subpacket' % (what, label))
    if not key.is_public and key.is_unlocked:
        try:
            sig = key.sign('fingerprint probe')
        except Exception:
            sig = None
        if sig is not None:
            ctx.probe('issuer_checked')
            ctx.checked()
            rs = bridge.ref_sig(bytes(sig))
            signer = comps.get(rs.issuer)
            if signer is None:
                ctx.viol('C18:issuer-id-unknown', '%s: the Issuer subpacket names key id %s which is not the id of any component' % (what, rs.issuer.hex() if rs.issuer else None))
            elif rs.issuer_fpr is not None and rs.issuer_fpr != signer.fingerprint:
                ctx.viol('C18:issuer-fingerprint-wrong', '%s: the Issuer Fingerprint subpacket is not the signing component\'s fingerprint' % what)
            elif not rsigs.verify(rs, signer, rsigs.subject_document(rs.type, b'fingerprint probe')):
                ctx.viol('C18:issuer-names-wrong-component', '%s: the component named as issuer did not make the signature' % what)
            if sig.signer != rs.issuer.hex().upper() or (rs.issuer_fpr and str(sig.signer_fingerprint) != rs.issuer_fpr.hex().upper()):
                ctx.viol('C18:issuer-attribute-mismatch', '%s: PGPSignature.signer / signer_fingerprint differ from the subpackets' % what)
    pub = key if key.is_public else key.pubkey
    encs = [c for c in comps.values() if c.alg in (rkeys.ECDH,) or (c.alg == rkeys.RSA_ES)]
    try:
        msg = pgpy.PGPMessage.new(b'x', compression=C.CompressionAlgorithm.Uncompressed)
        enc = pub.encrypt(msg, cipher=C.SymmetricKeyAlgorithm.AES128)
    except Exception:
        enc = None
    if enc is not None:
        ctx.probe('recipient_checked')
        ctx.checked()
        for p in split_packets(bytes(enc)):
            if p.tag == 1:
                pk = renc.parse_pkesk(p.body)
                if pk.keyid not in comps:
                    ctx.viol('C18:recipient-id-unknown', '%s: the session-key packet names key id %s which is not the id of any component' % (what, pk.keyid.hex()))
                elif comps[pk.keyid].alg != pk.alg:
                    ctx.viol('C18:recipient-id-wrong-component', '%s: the session-key packet names a component of another algorithm' % what)
        if set(x.upper() for x in enc.encrypters) - set(k.hex().upper() for k in comps):
            ctx.viol('C18:recipient-attribute-mismatch', '%s: PGPMessage.encrypters lists an id that is no component id' % what)


def execute(case, ctx):
    import pgpy
    cfg = case['config']
    for k in cfg['keys'].values():
        if k['created_us'] // 1_000_000 in (0, 1, 2 ** 31 - 1, 2 ** 31, 2 ** 32 - 1):
            ctx.probe('created_boundary')
        if isinstance(k.get('created_tz'), list):
            ctx.probe('created_non_utc_aware')
        if k.get('created_tz') == 'naive_utc':
            ctx.probe('created_naive')
    histories = {}
    seen = set()

    def on_copy(h, name, old, new):
        check_fp(ctx, 'copy of %s' % name, new, 'copy', seen, histories.setdefault(name, {}), h.model.get(name))

    def after_import(h, name, old, new, st):
        check_fp(ctx, 're-imported %s' % name, new, 'reimported', seen, histories.setdefault(name, {}), h.model.get(name))

    h = keyworld.KeyHistory(cfg['keys'], ctx, {'on_copy': on_copy, 'after_import': after_import})
    seams.clock().set(cfg.get('start_us', 1_600_000_000_000_000))
    for name in sorted(h.priv):
        check_fp(ctx, 'new key %s' % name, h.priv[name], 'private', seen, histories.setdefault(name, {}))
        check_ids_written(ctx, 'new key %s' % name, pgpy, h.priv[name])
    kinds = []
    for step in case['steps']:
        ctx.step = step['id']
        ctx.steps_done += 1
        seams.rnd().set_step(step['id'])
        name = step.get('key')
        out = h.apply(step)
        kinds.append(step['op'])
        ctx.event(step['id'], step['op'], name, out)
        if name not in h.priv or step['op'] == 'tick':
            continue
        k, mk = h.priv[name], h.model[name]
        hist = histories.setdefault(name, {})
        if step['op'] == 'add_subkey' and out == 'ok' and step.get('created_us') is not None:
            ctx.probe('subkey_created_differs')
        if k.is_public:
            check_fp(ctx, 'public key %s after %s' % (name, step['op']), k, 'reimported', seen, hist, mk)
            continue
        form = 'protected' if mk.passphrase is not None else 'private'
        check_fp(ctx, '%s after %s' % (name, step['op']), k, form, seen, hist, mk)
        check_fp(ctx, 'public twin of %s after %s' % (name, step['op']), h.held_pub.get(name) or k.pubkey, 'twin', seen, dict(hist), mk)
        if mk.passphrase is not None:
            with k.unlock(mk.passphrase):
                check_fp(ctx, '%s unlocked after %s' % (name, step['op']), k, 'unlocked', seen, hist, mk)
                check_ids_written(ctx, '%s (unlocked)' % name, pgpy, k)
        else:
            check_ids_written(ctx, '%s after %s' % (name, step['op']), pgpy, k, other=h.priv.get(step.get('other')))
    # keys produced by an independent encoder
    for i, f in enumerate(cfg.get('foreign', [])):
        ctx.step = 'foreign%d' % i
        body, alg, secret = make_ref_key(f['kind'] if f['kind'] != 'cv25519' else 'ed25519', f['created'], b'', case['run_seed'], label='c18f%d' % i)
        subs = []
        if f['kind'] == 'cv25519':
            sb, salg, ssec = make_ref_key('cv25519', f['created'], b'', case['run_seed'], label='c18f%d.e' % i)
            subs = [(sb, salg, ssec, 0x0C)]
        tkb = bridge.build_ref_tkey(body, alg, secret, b'Foreign <f@example.org>', max(f['created'], 1), subkeys=subs,
                                    secret_export=bool(i % 2))
        if alg in (rkeys.RSA_ES, rkeys.DSA):
            pub = rkeys.parse_pub(body)
            if any(v.bit_length() % 8 for v in pub.mpis.values()):
                ctx.probe('foreign_leading_zero_mpi')
        if f.get('mpi_slack') and alg in (rkeys.ECDSA, rkeys.EDDSA) and not (i % 2):
            # another encoder may declare an integer with leading zero bits (a bit count rounded up to whole octets); the key is
            # the same key, and its fingerprint is the one over the packet PGPy itself writes for it
            off = 6 + 1 + body[6]
            bits = int.from_bytes(body[off:off + 2], 'big')
            nb = ((bits + 7) // 8) * 8
            if nb != bits:
                slack = body[:off] + nb.to_bytes(2, 'big') + body[off + 2:]
                out = bytearray()
                for p in split_packets(tkb):
                    out += encode_packet(p.tag, slack) if p.tag == 6 else p.raw
                tkb = bytes(out)
                ctx.probe('foreign_mpi_bit_count_rounded_up')
        try:
            fk = pgpy.PGPKey.from_blob(tkb)[0]
        except Exception as e:
            ctx.viol('C18:foreign-key-unreadable', 'PGPy cannot load a reference-peer key (%s, created %d): %s' % (f['kind'], f['created'], e))
            continue
        check_fp(ctx, 'foreign %s key' % f['kind'], fk, 'foreign', seen, {})
        back = pgpy.PGPKey.from_blob(bytes(fk))[0]
        check_fp(ctx, 'foreign %s key re-exported' % f['kind'], back, 'foreign', seen, {})
        if rkeys.parse_pub(body).fingerprint.hex().upper() != str(fk.fingerprint).replace(' ', ''):
            ctx.viol('C18:foreign-fingerprint-differs', 'PGPy\'s fingerprint of a reference-peer %s key differs from the reference computation' % f['kind'])
    if len(seen) >= 4:
        ctx.mark_nontrivial(','.join(sorted(set(str(k.get('created_tz')) for k in cfg['keys'].values()))))
