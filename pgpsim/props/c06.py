"""C06 - secret keys at rest: passphrase protection is correct, checked, wiped after use.

Histories over private keys of every algorithm with subkeys: protect, unlock scopes
whose body signs / decrypts / certifies / exports / re-protects / adds a subkey /
derives the public key / nests another unlock, wrong passphrases, export-import of
the protected form, copies, and foreign protected keys made by the reference peer
(usage 254 and 255; simple, salted, iterated S2K; GNU-dummy primary; mixed).
Faults: a cancellation raised at the n-th traced line event inside pgpy/ while the
scope is entered or its body runs (X1), scope exit through an ordinary exception,
single-bit corruption of the at-rest form (F1), wrong credentials (F7).
Oracles: the protected export carries no secret integer in the clear and the
reference peer recovers exactly the original integers from it; inside a correct
unlock the key works; after the scope ends on any path the key is locked, refuses
private operations and no secret integer is reachable from it; a later correct
unlock works again."""
import copy
import gc
import sys

from .. import bridge, seams, world
from ..core import REPO
from ..ref import algo as ralgo, armor as rarmor, keys as rkeys, sigs as rsigs, tkey as rtkey
from ..ref.wire import WireError, encode_packet, split_packets
from .c05 import make_ref_key

ID = 'C06'
RULE = ('cases are histories of 4-12 steps over 1-2 private keys with subkeys (PGPy-generated or foreign): protect, unlock '
        'scopes with 1-4 inner operations and an exit mode (normal / body exception / cancellation at traced line n), wrong '
        'passphrase, at-rest bit flip, export-import, copy; a run is non-trivial when a scope was exited through an injected '
        'cancellation or exception, or an at-rest fault was applied, and the post-scope oracles ran; distinct = distinct '
        '(step kinds, inner operations, exit mode, key algorithms) sequences')
TIERS = {"quick": {"runs": 5000, "budget_s": 100}, "thorough": {"runs": 150000, "budget_s": 1500}}
PROBES = ('x1_fired', 'x1_fired_in_unlock_entry', 'x1_not_reached', 'exit_by_body_exception', 'wrong_passphrase', 'at_rest_flip',
          'at_rest_flip_subkey', 'reprotect_inside_scope', 'add_subkey_inside_scope', 'nested_unlock', 'nested_wrong_passphrase', 'foreign_usage255',
          'foreign_s2k_simple', 'foreign_s2k_salted', 'foreign_gnu_dummy', 'foreign_mixed', 'foreign_two_passphrases', 'export_import_protected', 'copy_key', 'ghost_of_copied_key_checked', 'uidless_protected_key',
          'second_unlock_ok', 'graph_objects_walked', 'different_subkey_passphrase', 'passphrase_bytes', 'rsa', 'dsa', 'ecdsa', 'eddsa')

PASSES = ['hunter2', 'pässwörd ☃', 'x' * 120, 'p w', 'QwertyUiop', 'cafe\u0301 \u1112\u1161\u11ab', ' padded with blanks ', 'tab\tinside\n']
INNER = ['sign', 'sign', 'decrypt', 'certify', 'export', 'derive_pub', 'reprotect', 'add_subkey', 'nested', 'verify_state', 'nested_wrong']


class BodyError(Exception):
    pass


def generate(rng, tier):
    keys = {}
    nk = rng.choice([1, 1, 2])
    for i in range(nk):
        r = rng.random()
        if r < 0.3:
            keys['k%d' % i] = {'foreign': True, 'alg': rng.choice(['ed25519', 'ed25519', 'p256', 'p384', 'rsa2048', 'dsa2048']),
                               'usage_octet': rng.choice([254, 254, 255]), 's2k': rng.choice([3, 3, 1, 0]),
                               'cipher': rng.choice([7, 9, 3, 2, 8, 4, 11, 12, 13]), 'hash': rng.choice([8, 2, 10]), 'count': rng.choice([0, 16, 96]),
                               'shape': rng.choice(['plain', 'plain', 'gnu_dummy', 'mixed', 'two_pass']), 'pass': rng.choice(PASSES)}
        else:
            alg = rng.choice(['ed25519', 'ed25519', 'p256', 'p384', 'p521', 'secp256k1']) if rng.random() > 0.15 else \
                rng.choice(['rsa2048', 'dsa2048', 'rsa1024'])
            subs = [{'alg': rng.choice(['cv25519', 'ecdh_p256', 'cv25519', 'ecdh_p384']), 'usage': 'E'}]
            if rng.random() < 0.4:
                subs.append({'alg': rng.choice(['ed25519', 'p256']), 'usage': 'S'})
            keys['k%d' % i] = {'alg': alg, 'usage': 'CS', 'subkeys': subs, 'uids': [['Holder %d' % i, '', 'h%d@example.org' % i]],
                               'created_us': 1_480_000_000_000_000}
    names = sorted(keys)
    steps = []
    n = rng.randint(4, 12 if tier == 'thorough' else 8)
    for i in range(n):
        sid = 's%d' % i
        k = rng.choice(names)
        r = rng.random()
        if r < 0.22:
            steps.append({'id': sid, 'op': 'protect', 'key': k, 'pass': rng.choice(PASSES), 'as_bytes': rng.random() < 0.1,
                          'cipher': rng.choice([7, 8, 9, 3, 2, 4, 11, 12, 13]), 'hash': rng.choice([8, 10, 2, 9, 11, 3, 1])})
        elif r < 0.72:
            inner = [rng.choice(INNER) for _ in range(rng.choice([1, 1, 2, 3, 4]))]
            ex = rng.random()
            exit_ = {'mode': 'normal'}
            if ex < 0.4:
                exit_ = {'mode': 'cancel', 'n': int(2 ** (rng.random() * 12.5)), 'frac': rng.random()}
            elif ex < 0.55:
                exit_ = {'mode': 'exception', 'after': rng.randrange(len(inner) + 1)}
            steps.append({'id': sid, 'op': 'unlock_scope', 'key': k, 'wrong': rng.random() < 0.12, 'inner': inner, 'exit': exit_,
                          'sweep': tier == 'thorough' and rng.random() < 0.03})
        elif r < 0.82:
            steps.append({'id': sid, 'op': 'at_rest_flip', 'key': k, 'pos': rng.random(), 'bit': rng.randrange(8), 'component': rng.randrange(3)})
        elif r < 0.92:
            steps.append({'id': sid, 'op': 'export_import', 'key': k, 'armor': rng.random() < 0.5})
        elif r < 0.96:
            steps.append({'id': sid, 'op': 'copy_key', 'key': k})
        else:
            steps.append({'id': sid, 'op': 'subkey_other_pass', 'key': k, 'pass': 'another one'})
    return {'config': {'keys': keys, 's2k_count': rng.choice([0, 16, 16, 96]), 'start_us': 1_600_000_000_000_000,
                       'uidless_probe': rng.random() < 0.25}, 'steps': steps}


def simplify(case):
    for i, s in enumerate(case['steps']):
        if s['op'] == 'unlock_scope':
            if len(s['inner']) > 1:
                for j in range(len(s['inner'])):
                    c = copy.deepcopy(case)
                    del c['steps'][i]['inner'][j]
                    if c['steps'][i]['exit'].get('after', 0) > len(c['steps'][i]['inner']):
                        c['steps'][i]['exit']['after'] = len(c['steps'][i]['inner'])
                    yield c
            if s['exit']['mode'] != 'normal':
                c = copy.deepcopy(case)
                c['steps'][i]['exit'] = {'mode': 'normal'}
                yield c
            if s['exit']['mode'] == 'cancel' and s['exit']['n'] > 1:
                for nn in (1, s['exit']['n'] // 2, s['exit']['n'] - 1):
                    c = copy.deepcopy(case)
                    c['steps'][i]['exit']['n'] = max(1, nn)
                    c['steps'][i]['exit'].pop('frac', None)
                    yield c
    keys = case['config']['keys']
    for k in sorted(keys):
        if not keys[k].get('foreign') and keys[k]['alg'] != 'ed25519':
            c = copy.deepcopy(case)
            c['config']['keys'][k]['alg'] = 'ed25519'
            yield c
        if not keys[k].get('foreign') and len(keys[k]['subkeys']) > 1:
            c = copy.deepcopy(case)
            c['config']['keys'][k]['subkeys'] = keys[k]['subkeys'][:1]
            yield c


# --- X1: cancellation at the n-th traced line inside pgpy/ ---------------------------
class LineInjector(object):
    def __init__(self):
        self.count = 0
        self.fire_at = 0
        self.fired = False
        self.fired_where = None
        self.prefix = REPO.rstrip('/') + '/pgpy/'
        self.armed = False
        self.in_cleanup = 0

    def _local(self, frame, event, arg):
        if not self.armed:
            return None
        if event == 'line':
            self.count += 1
            if self.fire_at and self.count == self.fire_at:
                self.fired = True
                self.armed = False
                self.fired_where = '%s:%s' % (frame.f_code.co_name, frame.f_lineno)
                sys.settrace(None)
                raise seams.SimCancelled('injected at line event %d (%s)' % (self.count, self.fired_where))
        return self._local

    def _cleanup(self, frame, event, arg):
        # tracer of a clean-up frame: counts nothing, only notices when the clean-up returns
        if event == 'return':
            self.in_cleanup -= 1
        return self._cleanup

    def _global(self, frame, event, arg):
        if not self.armed:
            return None
        if frame.f_code.co_filename.startswith(self.prefix):
            # never inside the clean-up itself (nor in anything it calls): the property promises
            # clean-up after an exception, not clean-up that survives a second one
            if frame.f_code.co_name == 'clear':
                self.in_cleanup += 1
                return self._cleanup
            if self.in_cleanup:
                return None
            return self._local
        return None

    def arm(self, fire_at=0):
        self.count = 0
        self.fire_at = fire_at
        self.fired = False
        self.in_cleanup = 0
        self.armed = True
        sys.settrace(self._global)

    def disarm(self):
        self.armed = False
        sys.settrace(None)


# --- secrets ledger ------------------------------------------------------------------
class KeyState(object):
    def __init__(self, name, obj, secrets, passphrase=None, foreign=False):
        self.name = name
        self.obj = obj
        self.secrets = secrets          # list of (fingerprint, alg, dict name->int)
        self.passphrase = passphrase    # current passphrase or None when unprotected
        self.sub_pass = {}              # fingerprint -> passphrase when a subkey deviates
        self.foreign = foreign
        self.broken = False             # a cancelled re-protect / add_subkey may leave a key that no single passphrase opens
        self.gnu_dummy = False
        self.cipher = None
        self.unprotected = set()     # fingerprints of components whose secret is legitimately in the clear

    def secret_ints(self):
        out = set()
        for fp, _, d in self.secrets:
            if fp in self.unprotected:
                continue
            for v in d.values():
                if v.bit_length() >= 120:
                    out.add(v)
        return out

    def secret_octets(self):
        return [v.to_bytes((v.bit_length() + 7) // 8, 'big') for v in self.secret_ints()]


def _secrets_from_export(keybytes, passphrase=None):
    out = []
    tk = rtkey.parse_keys(keybytes)[0]
    comps = [(tk.pub, tk.sec)] + [(c.key, c.sec) for c in tk.subkeys]
    for pub, sec in comps:
        if sec is None or sec.s2k_type == 101:
            continue
        out.append((pub.fingerprint, pub.alg, rkeys.unprotect(sec, passphrase)))
    return out


def walk_for_secrets(root, ints, octs, limit=60000):
    """Bounded walk of the object graph from root: any int equal to a secret integer, or any
    bytes/bytearray containing a secret integer's octets."""
    seen = set()
    stack = [root]
    n = 0
    skip = (type, type(sys), type(walk_for_secrets), type(len), type(object.__init__), type(LineInjector.arm))
    while stack and n < limit:
        o = stack.pop()
        if id(o) in seen:
            continue
        seen.add(id(o))
        n += 1
        if isinstance(o, bool):
            continue
        if isinstance(o, int):
            if int(o) in ints:
                return n, 'int of %d bits' % int(o).bit_length()
            continue
        if isinstance(o, (bytes, bytearray)):
            if len(o) >= 15:
                b = bytes(o)
                for s in octs:
                    if s in b:
                        return n, 'octet string of %d octets inside %d' % (len(s), len(b))
            continue
        if isinstance(o, (str, float, type(None))) or isinstance(o, skip):
            continue
        try:
            refs = gc.get_referents(o)
        except Exception:
            continue
        for r in refs:
            if not isinstance(r, skip):
                stack.append(r)
    return n, None


def execute(case, ctx):
    import pgpy
    cfg = case['config']
    clock = seams.clock()
    clock.set(cfg.get('start_us', 1_600_000_000_000_000))
    rnd = seams.rnd()
    K = {}
    for name in sorted(cfg['keys']):
        spec = cfg['keys'][name]
        rnd.set_step('build:' + name)
        if spec.get('foreign'):
            ks = _build_foreign(pgpy, name, spec, case, ctx)
            if ks is not None:
                K[name] = ks
        else:
            obj = world.build_key(spec, name)
            K[name] = KeyState(name, obj, _secrets_from_export(bytes(obj)))
        if name in K:
            ctx.probe({1: 'rsa', 17: 'dsa', 19: 'ecdsa', 22: 'eddsa'}.get(int(K[name].obj.key_algorithm), 'rsa'))
    if cfg.get('uidless_probe'):
        # a key protected before it has any identity is locked like any other: its first self-certification needs the passphrase too
        C = pgpy.constants
        rnd.set_step('build:uidless')
        bare = world.new_key('ed25519', 'c06uidless')
        ctx.checked()
        ctx.probe('uidless_protected_key')
        try:
            bare.protect('uidless pw', C.SymmetricKeyAlgorithm.AES128, C.HashAlgorithm.SHA256)
            forms = [('as protected', bare), ('re-imported', pgpy.PGPKey.from_blob(bytes(bare))[0])]
        except Exception as e:
            forms = []
            ctx.event('uidless', 'protect-raised', type(e).__name__)
        for what, kobj in forms:
            try:
                kobj.add_uid(pgpy.PGPUID.new('Too Early'), usage={C.KeyFlags.Sign, C.KeyFlags.Certify})
            except Exception:
                continue
            ctx.viol('C06:locked-key-acts:add_uid', 'a protected, locked key without identities (%s) performed its first self-certification without the passphrase' % what)
    inj = LineInjector()
    shapes = []
    nontrivial = False
    for step in case['steps']:
        ctx.step = step['id']
        ctx.steps_done += 1
        rnd.set_step(step['id'])
        ks = K.get(step.get('key'))
        if ks is None:
            continue
        op = step['op']
        try:
            if op == 'protect':
                _do_protect(pgpy, ks, step, ctx)
            elif op == 'unlock_scope':
                if _do_scope(pgpy, ks, K, step, ctx, inj):
                    nontrivial = True
                shapes.append('U[%s]%s' % (','.join(step['inner']), step['exit']['mode'][0]))
            elif op == 'at_rest_flip':
                if _do_at_rest_flip(pgpy, ks, step, ctx):
                    nontrivial = True
                    shapes.append('F')
            elif op == 'export_import':
                _do_export_import(pgpy, ks, step, ctx)
            elif op == 'copy_key':
                _do_copy(pgpy, ks, step, ctx)
            elif op == 'subkey_other_pass':
                _do_subkey_other_pass(pgpy, ks, step, ctx)
        finally:
            inj.disarm()
        for gobj, gpw, gbytes in getattr(ks, 'ghosts', []):
            ctx.checked()
            ctx.probe('ghost_of_copied_key_checked')
            if bytes(gobj) != gbytes:
                ctx.viol('C06:original-changed-through-copy:export', 'the protected key %s was copied from exports other octets after %s on the copy' % (ks.name, op))
                break
            try:
                with gobj.unlock(gpw):
                    pass
            except Exception as e:
                ctx.viol('C06:original-changed-through-copy:unlock', 'the protected key %s was copied from no longer unlocks with its own passphrase after %s on '
                         'the copy: %s' % (ks.name, op, type(e).__name__))
                break
        ctx.event(step['id'], op, ks.name, 'protected' if ks.passphrase is not None else 'clear', ks.broken)
    if nontrivial:
        ctx.mark_nontrivial(';'.join(shapes) + '|' + ','.join(sorted(cfg['keys'][k]['alg'] for k in cfg['keys'])))


# ---------------------------------------------------------------------------
def _build_foreign(pgpy, name, spec, case, ctx):
    created = 1_450_000_000
    uid = ('Foreign %s <f@example.org>' % name).encode()
    body, alg, secret = make_ref_key(spec['alg'], created, uid, case['run_seed'], label=name)
    sb, salg, ssec = make_ref_key('cv25519', created, uid, case['run_seed'], label=name + '.e')
    seed = lambda what, n: seams.derive(case['run_seed'], 'foreign:' + name, what, n)
    bs = ralgo.block_size(spec['cipher'])

    def prot(tag):
        return {'usage': spec['usage_octet'], 'cipher': spec['cipher'], 's2k_type': spec['s2k'], 'hash': spec['hash'],
                'salt': seed('salt' + tag, 8), 'count': spec['count'], 'iv': seed('iv' + tag, bs), 'passphrase': spec['pass']}
    pub = rkeys.parse_pub(body)
    spub = rkeys.parse_pub(sb)
    out = bytearray()
    shape = spec['shape']
    secrets = []
    if shape == 'gnu_dummy':
        out += encode_packet(5, rkeys.build_gnu_dummy_body(body))
        ctx.probe('foreign_gnu_dummy')
    else:
        out += encode_packet(5, rkeys.build_sec_body(body, alg, secret, prot('p')))
        secrets.append((pub.fingerprint, alg, secret))
    out += encode_packet(13, uid)
    hashed = (rsigs.sp_created(created) + rsigs.sp_keyflags(0x03) + rsigs.encode_subpacket(rsigs.SP_PREF_HASH, bytes([8, 10]))
              + rsigs.encode_subpacket(rsigs.SP_PREF_SYM, bytes([9, 7])) + rsigs.sp_issuer_fpr(pub.fingerprint))
    out += encode_packet(2, rsigs.sign(0x13, pub, secret, 8, hashed, rsigs.sp_issuer(pub.keyid), rsigs.subject_uid(pub, uid)))
    sprot = None if shape == 'mixed' else prot('s')
    if shape == 'two_pass':
        # legal and met in the wild: the subkey sits under another passphrase than the primary (merged from two sources)
        sprot['passphrase'] = spec['pass'] + ' (the other one)'
        ctx.probe('foreign_two_passphrases')
    out += encode_packet(7, rkeys.build_sec_body(sb, salg, ssec, sprot))
    secrets.append((spub.fingerprint, salg, ssec))
    h = rsigs.sp_created(created) + rsigs.sp_keyflags(0x0C) + rsigs.sp_issuer_fpr(pub.fingerprint)
    out += encode_packet(2, rsigs.sign(0x18, pub, secret, 8, h, rsigs.sp_issuer(pub.keyid), rsigs.subject_subkey(pub, spub)))
    if spec['usage_octet'] == 255:
        ctx.probe('foreign_usage255')
    if spec['s2k'] == 0:
        ctx.probe('foreign_s2k_simple')
    if spec['s2k'] == 1:
        ctx.probe('foreign_s2k_salted')
    if shape == 'mixed':
        ctx.probe('foreign_mixed')
    try:
        obj = pgpy.PGPKey.from_blob(bytes(out))[0]
    except Exception as e:
        ctx.viol('C06:foreign-key-unreadable:%s' % type(e).__name__,
                 'PGPy cannot load a reference-peer protected key (usage %d, S2K %d, shape %s): %s' % (spec['usage_octet'], spec['s2k'], shape, e))
        return None
    ks = KeyState(name, obj, secrets, spec['pass'], foreign=True)
    ks.gnu_dummy = shape == 'gnu_dummy'
    ks.cipher = spec['cipher']
    ks.mixed = shape == 'mixed'
    if ks.mixed:
        ks.unprotected.add(spub.fingerprint)
    if shape == 'two_pass':
        # no single passphrase opens this key: every scope fails part-way (the primary opens, the subkey does not) and must leave
        # the whole key locked and wiped
        ks.broken = True
    return ks


def _check_at_rest(pgpy, ks, ctx, what):
    """(a) no secret integer in the clear in the export; the reference peer recovers the original integers."""
    ctx.checked()
    raw = bytes(ks.obj)
    arm = rarmor.dearmor(str(ks.obj)).payload
    for blob, form in ((raw, 'binary'), (arm, 'armored')):
        for s in ks.secret_octets():
            if s in blob:
                ctx.viol('C06:secret-in-export:%s' % what, 'the %s export of a protected key contains a secret integer in the clear (%s)' % (form, what))
    try:
        tk = rtkey.parse_keys(raw)[0]
    except WireError as e:
        ctx.viol('C06:export-unreadable:%s' % what, 'the reference peer cannot parse the protected export: %s' % e)
        return
    comps = [(tk.pub, tk.sec)] + [(c.key, c.sec) for c in tk.subkeys]
    known = {fp: (alg, sec) for fp, alg, sec in ks.secrets}
    for pub, sec in comps:
        if sec is None or sec.s2k_type == 101 or pub.fingerprint not in known:
            continue
        pw = ks.sub_pass.get(pub.fingerprint, ks.passphrase)
        if sec.usage == 0:
            if pub.fingerprint in ks.unprotected or ks.broken:
                continue
            ctx.viol('C06:component-unprotected:%s' % what, 'a component of a protected key is exported with its secret in the clear')
        try:
            got = rkeys.unprotect(sec, pw)
        except (rkeys.KeyError_, ralgo.AlgoError, WireError) as e:
            if ks.broken:
                continue
            ctx.viol('C06:ref-cannot-unprotect:%s' % what, 'the reference peer cannot recover the secret of a component from the export with the passphrase: %s' % e)
            continue
        if got != known[pub.fingerprint][1]:
            ctx.viol('C06:ref-recovers-other-secret:%s' % what, 'the reference peer recovers other secret integers than the key had')
        if sec.usage not in (254, 255):
            ctx.viol('C06:usage-octet', 'unexpected S2K usage %d' % sec.usage)


def _graph_clean(ks, ctx, what):
    n, hit = walk_for_secrets(ks.obj, ks.secret_ints(), ks.secret_octets())
    ctx.probe('graph_objects_walked', n)
    ctx.checked()
    if hit:
        ctx.viol('C06:secret-reachable:%s' % what, 'after %s a secret integer is still reachable from the key object (%s)' % (what, hit))


def _refuses(pgpy, ks, ctx, what):
    ctx.checked()
    try:
        ks.obj.sign('must not work')
    except Exception:
        return
    ctx.viol('C06:locked-key-signs:%s' % what, 'after %s the locked key still performs a private operation' % what)


def _locked_checks(pgpy, ks, ctx, what):
    ctx.checked()
    if ks.obj.is_unlocked:
        ctx.viol('C06:still-unlocked:%s' % what, 'after %s is_unlocked is still True' % what)
    _refuses(pgpy, ks, ctx, what)
    _graph_clean(ks, ctx, what)


def _works(pgpy, ks, ctx, what):
    """sign (and decrypt when there is an encryption subkey) and cross-check with the reference peer"""
    if ks.gnu_dummy:
        return
    sig = ks.obj.sign('works %s' % what)
    ctx.checked()
    if not ks.obj.pubkey.verify('works %s' % what, sig):
        ctx.viol('C06:unlocked-signature-invalid:%s' % what, 'a signature made inside a correct unlock does not verify')
    rs = bridge.ref_sig(bytes(sig))
    tk = bridge.ref_tkey(bytes(ks.obj.pubkey))
    signer = bridge.find_signer(tk, rs)
    if signer is None or not rsigs.verify(rs, signer, rsigs.subject_document(rs.type, ('works %s' % what).encode())):
        ctx.viol('C06:unlocked-signature-invalid-ref:%s' % what, 'the reference peer rejects a signature made inside a correct unlock')


def _do_protect(pgpy, ks, step, ctx):
    C = pgpy.constants
    if ks.passphrase is not None or ks.foreign or ks.broken:
        return          # re-protection happens inside unlock scopes
    pw = step['pass'].encode('utf-8') if step.get('as_bytes') else step['pass']
    if step.get('as_bytes'):
        ctx.probe('passphrase_bytes')
    ks.obj.protect(pw, C.SymmetricKeyAlgorithm(step['cipher']), C.HashAlgorithm(step['hash']))
    ks.passphrase = step['pass']
    ks.cipher = step['cipher']
    ctx.checked()
    if not ks.obj.is_protected:
        ctx.viol('C06:protect-no-effect', 'is_protected is False after protect()')
    _check_at_rest(pgpy, ks, ctx, 'protect')
    _locked_checks(pgpy, ks, ctx, 'protect')


def _body_op(pgpy, ks, K, op, ctx, state):
    C = pgpy.constants
    key = ks.obj
    if op == 'sign':
        _works(pgpy, ks, ctx, 'scope')
    elif op == 'decrypt':
        encs = [s for s in key.subkeys.values() if int(s.key_algorithm) in (1, 18)]
        if encs:
            msg = pgpy.PGPMessage.new(b'at rest', compression=C.CompressionAlgorithm.Uncompressed)
            enc = key.pubkey.encrypt(msg, cipher=C.SymmetricKeyAlgorithm.AES128)
            dec = key.decrypt(enc)
            ctx.checked()
            got = dec.message
            if (got.encode() if isinstance(got, str) else bytes(got)) != b'at rest':
                ctx.viol('C06:unlocked-decrypt-wrong', 'decryption inside a correct unlock returns other content')
    elif op == 'certify':
        if not ks.gnu_dummy:
            key.certify(key.userids[0], C.SignatureType.Generic_Cert)
    elif op == 'export':
        b = bytes(key)
        ctx.checked()
        for s in ks.secret_octets():
            if s in b and not (getattr(ks, 'mixed', False)):
                ctx.viol('C06:secret-in-export:unlocked', 'exporting a protected key while it is unlocked writes a secret integer in the clear')
    elif op == 'derive_pub':
        p = key.pubkey
        pb = bytes(p)
        for s in ks.secret_octets():
            if s in pb:
                ctx.viol('C06:secret-in-public-export', 'the public export of an unlocked key contains a secret integer')
    elif op == 'reprotect':
        newpw = 'changed-' + str(state['n'])
        state['n'] += 1
        state['reprotect_started'] = True
        ctx.probe('reprotect_inside_scope')
        key.protect(newpw, C.SymmetricKeyAlgorithm.AES256, C.HashAlgorithm.SHA256)
        state['new_pass'] = newpw
        state['reprotect_done'] = True
    elif op == 'add_subkey':
        state['structure_changed'] = True
        ctx.probe('add_subkey_inside_scope')
        sub = world.new_key('cv25519', ks.name + '.added%d' % state['n'])
        state['n'] += 1
        # remember its secret before anything can happen to it
        secs = _secrets_from_export(bytes(sub))
        key.add_subkey(sub, usage={C.KeyFlags.EncryptCommunications})
        state['added'] = secs
    elif op == 'nested':
        ctx.probe('nested_unlock')
        pw = state.get('new_pass', ks.passphrase)
        with key.unlock(pw):
            _works(pgpy, ks, ctx, 'nested')
        state['nested_done'] = True
    elif op == 'nested_wrong':
        # a wrong passphrase presented while the key is held open (a helper that "checks" a passphrase): it must be refused
        # exactly as on a locked key
        ctx.probe('nested_wrong_passphrase')
        ctx.checked()
        entered = False
        try:
            with key.unlock('not the passphrase, nested'):
                entered = True
        except Exception:
            pass
        if entered:
            ctx.viol('C06:wrong-passphrase-accepted:nested', 'unlock() with a wrong passphrase entered its scope because the key was already unlocked')
        state['nested_done'] = True
    elif op == 'verify_state':
        ctx.checked()
        if not key.is_unlocked:
            ctx.viol('C06:not-unlocked-in-scope', 'is_unlocked is False inside a correct unlock scope')


def _do_scope(pgpy, ks, K, step, ctx, inj):
    """Returns True when a fault path was exercised."""
    key = ks.obj
    if ks.passphrase is None or ks.broken:
        return False
    wrong = step.get('wrong')
    pw = 'definitely wrong' if wrong else ks.passphrase
    ex = step['exit']
    inner = list(step['inner'])
    if 'nested_wrong' in inner:
        inner = [o for o in inner if o not in ('nested', 'nested_wrong')] + ['nested_wrong']
    if 'nested' in inner:
        # leaving an inner scope locks the key again (that is the property); what the outer body would do
        # afterwards is the caller's problem, so a nested scope is always the last thing a body does
        inner = [o for o in inner if o != 'nested'] + ['nested']
    if 'reprotect' in inner:
        # protect() wipes the cleartext again as its last act, so nothing private can follow it in a body
        k = inner.index('reprotect')
        inner = [o for o in inner[:k] if o not in ('nested', 'nested_wrong')] + ['reprotect']
    if ks.gnu_dummy:
        inner = [o for o in inner if o in ('decrypt', 'export', 'derive_pub', 'verify_state')]
    if ks.sub_pass:
        # subkeys with their own passphrase: one passphrase cannot open everything; unlock must fail cleanly
        ctx.probe('different_subkey_passphrase')
        try:
            with key.unlock(ks.passphrase):
                pass
        except Exception:
            pass
        _locked_checks(pgpy, ks, ctx, 'failed unlock (subkey has another passphrase)')
        return True
    state = {'n': step['id'].__hash__() % 1000 if False else int(step['id'][1:]) * 10}
    fire_at = 0
    if ex['mode'] == 'cancel' and not wrong:
        fire_at = ex['n']
        if 'frac' in ex and not any(o in inner for o in ('reprotect', 'add_subkey')):
            # dry run of the same scope on the same key (these bodies do not change it) to learn the
            # number of traced line events, then place the cancellation inside that range
            inj.arm(0)
            try:
                with key.unlock(pw):
                    for op in inner:
                        _body_op(pgpy, ks, K, op, ctx, dict(state))
            except Exception:
                pass
            finally:
                total = inj.count
                inj.disarm()
            if total > 0:
                fire_at = 1 + int(ex['frac'] * total) % total
    raised = None
    entered = False
    body_done = 0
    if fire_at:
        inj.arm(fire_at)
    try:
        with key.unlock(pw):
            entered = True
            for i, op in enumerate(inner):
                if ex['mode'] == 'exception' and i == ex.get('after', 0):
                    ctx.probe('exit_by_body_exception')
                    raise BodyError('caller bug inside the scope')
                _body_op(pgpy, ks, K, op, ctx, state)
                body_done += 1
            if ex['mode'] == 'exception' and ex.get('after', 0) >= len(inner):
                ctx.probe('exit_by_body_exception')
                raise BodyError('caller bug at the end of the scope')
            inj.disarm()
    except seams.SimCancelled as e:
        raised = e
        ctx.fault('X1')
        ctx.probe('x1_fired')
        if not entered:
            ctx.probe('x1_fired_in_unlock_entry')
    except BodyError as e:
        raised = e
        ctx.fault('body_exception')
    except Exception as e:
        raised = e
    finally:
        inj.disarm()
    if fire_at and not inj.fired:
        ctx.probe('x1_not_reached')
    # ---- bookkeeping of what the body changed
    if state.get('added'):
        ks.secrets.extend(state['added'])
        for fp, _, _ in state['added']:
            ks.unprotected.add(fp)
    if state.get('reprotect_done'):
        ks.passphrase = state['new_pass']
        ks.unprotected.clear()
        ks.mixed = False
    elif state.get('reprotect_started'):
        ks.broken = True            # a cancelled re-protection may leave components under different passphrases
    if state.get('structure_changed') and not isinstance(raised, type(None)) and not isinstance(raised, BodyError):
        ks.broken = True
    # ---- oracles
    if wrong:
        ctx.probe('wrong_passphrase')
        ctx.fault('F7')
        ctx.checked()
        if raised is None:
            ctx.viol('C06:wrong-passphrase-accepted', 'unlock() with a wrong passphrase did not raise')
        _locked_checks(pgpy, ks, ctx, 'wrong passphrase')
        return True
    if raised is not None and not isinstance(raised, (seams.SimCancelled, BodyError)):
        if ks.gnu_dummy or ks.broken:
            _locked_checks(pgpy, ks, ctx, 'failed scope')
            return False
        ctx.viol('C06:correct-unlock-failed:%s' % type(raised).__name__,
                 'a scope with the right passphrase (inner %s) failed: %s: %s' % (inner[:body_done + 1], type(raised).__name__, raised))
    if ks.passphrase is not None and not (state.get('added') and not ks.broken and False):
        _locked_checks(pgpy, ks, ctx, 'scope exit (%s)' % ex['mode'])
    if not ks.broken and not ks.gnu_dummy:
        # (d') a later correct unlock restores a working key
        ctx.checked()
        try:
            with key.unlock(ks.passphrase):
                _works(pgpy, ks, ctx, 'second unlock')
            ctx.probe('second_unlock_ok')
        except Exception as e:
            ctx.viol('C06:second-unlock-failed:%s' % type(e).__name__,
                     'after a scope (inner %s, exit %s) a later unlock with the right passphrase fails: %s: %s'
                     % (inner, ex['mode'], type(e).__name__, e))
        _locked_checks(pgpy, ks, ctx, 'second unlock exit')
        if state.get('reprotect_done'):
            _check_at_rest(pgpy, ks, ctx, 're-protect')
    return raised is not None


def _do_at_rest_flip(pgpy, ks, step, ctx):
    """F1 on the stored form: flip one bit inside the encrypted secret material of one component,
    load that, try to unlock: must raise and leave nothing behind."""
    if ks.passphrase is None or ks.broken or ks.sub_pass:
        return False
    raw = bytes(ks.obj)
    off = 0
    targets = []
    for p in split_packets(raw):
        h = len(p.raw) - len(p.body)
        if p.tag in (5, 7):
            try:
                sec = rkeys.parse_sec(p.body)
            except WireError:
                sec = None
            if sec is not None and sec.usage in (254, 255) and sec.s2k_type != 101 and len(sec.enc) > 0:
                targets.append((off + h + len(p.body) - len(sec.enc), off + h + len(p.body), p.tag))
        off += len(p.raw)
    if not targets:
        return False
    a, b, tag = targets[step['component'] % len(targets)]
    m = bytearray(raw)
    m[a + int(step['pos'] * (b - a)) % (b - a)] ^= 1 << step['bit']
    ctx.fault('F1')
    ctx.probe('at_rest_flip')
    if tag == 7:
        ctx.probe('at_rest_flip_subkey')
    try:
        dam = pgpy.PGPKey.from_blob(bytes(m))[0]
    except Exception:
        return True
    tmp = KeyState(ks.name, dam, ks.secrets, ks.passphrase)
    tmp.unprotected = set(ks.unprotected)
    raised = None
    try:
        with dam.unlock(ks.passphrase):
            pass
    except Exception as e:
        raised = e
    ctx.checked()
    if raised is None and ks.cipher is not None:
        # usage 255 (16-bit checksum) can miss a flip; usage 254 (SHA-1) cannot
        tk = rtkey.parse_keys(bytes(m))[0]
        if all(c is None or c.usage != 255 for c in [tk.sec] + [x.sec for x in tk.subkeys]):
            ctx.viol('C06:damaged-key-unlocked', 'a key whose encrypted secret material was altered at rest unlocks without an error')
    _locked_checks(pgpy, tmp, ctx, 'unlock of a key damaged at rest')
    return True


def _do_export_import(pgpy, ks, step, ctx):
    if ks.broken:
        return
    data = str(ks.obj) if step.get('armor') else bytes(ks.obj)
    try:
        new = pgpy.PGPKey.from_blob(data)[0]
    except Exception as e:
        ctx.viol('C06:own-export-unreadable', 'PGPy cannot re-import its own export of a %s key: %s: %s'
                 % ('protected' if ks.passphrase is not None else 'clear', type(e).__name__, e))
        return
    ks.obj = new
    if ks.passphrase is not None:
        ctx.probe('export_import_protected')
        _check_at_rest(pgpy, ks, ctx, 'export-import')
        _locked_checks(pgpy, ks, ctx, 'import of the protected form')


def _do_copy(pgpy, ks, step, ctx):
    if ks.broken:
        return
    ctx.probe('copy_key')
    if ks.passphrase is not None and not ks.sub_pass and not ks.gnu_dummy and not getattr(ks, 'mixed', False) and len(getattr(ks, 'ghosts', [])) < 2:
        # the original stays around: nothing done to the copy later may change what it exports or which passphrase opens it
        ks.ghosts = getattr(ks, 'ghosts', []) + [(ks.obj, ks.passphrase, bytes(ks.obj))]
    ks.obj = copy.copy(ks.obj)
    if ks.passphrase is not None:
        _locked_checks(pgpy, ks, ctx, 'copy of a locked key')


def _do_subkey_other_pass(pgpy, ks, step, ctx):
    """Give the first subkey its own passphrase through the public API (seen in old GnuPG keys)."""
    C = pgpy.constants
    if ks.passphrase is None or ks.broken or ks.foreign or ks.sub_pass:
        return
    subs = list(ks.obj.subkeys.values())
    if not subs:
        return
    try:
        with ks.obj.unlock(ks.passphrase):
            subs[0].protect(step['pass'], C.SymmetricKeyAlgorithm.AES128, C.HashAlgorithm.SHA256)
    except Exception:
        ks.broken = True
        return
    ks.sub_pass[bytes.fromhex(str(subs[0].fingerprint))] = step['pass']
    _check_at_rest(pgpy, ks, ctx, 'subkey with its own passphrase')
    _locked_checks(pgpy, ks, ctx, 'subkey re-protected')
