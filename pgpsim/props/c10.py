"""C10 - ASCII armor is a faithful, checksummed, correctly labelled envelope.

Objects of every kind (public key, private key, message, detached signature,
cleartext-signed message) with drawn payload lengths and bodies and drawn armor
headers are armored by PGPy and sent as text over a channel that re-wraps them
benignly (CRLF, extra header lines, surrounding text, str / bytes / bytearray /
SimFS file) or corrupts a single character (F6: body, CRC line, header line,
BEGIN/END line).  An independent RFC 4880 section 6 decoder with a bit-serial
CRC-24 is the oracle."""
import copy
import warnings

from .. import encworld, seams, world
from ..ref import armor as rarmor
from ..core import CallTimeout, watchdog
from ..ref.wire import split_packets

ID = 'C10'
RULE = ('cases are 3-8 armored objects of drawn kinds / payload lengths / bodies / header sets, each delivered unfaulted through '
        '1-3 benign channel forms and 2-6 times with one corrupted character; a run is non-trivial when objects of at least two '
        'kinds were decoded by the independent decoder and at least one corrupted delivery was judged; distinct = distinct '
        '(kind, payload length mod 48, delivery forms, fault places) tuples')
TIERS = {"quick": {"runs": 8000, "budget_s": 80}, "thorough": {"runs": 300000, "budget_s": 1500}}
PROBES = ('delivered_rewrapped_off_group', 'surrounding_text_quotes_armor_header', 'lone_public_subkey_armored', 'binary_ends_in_whitespace_octet', 'kind_pubkey', 'kind_privkey', 'kind_message', 'kind_signature', 'kind_cleartext', 'crc_leading_zero_octet', 'payload_mod3_0',
          'payload_mod3_1', 'payload_mod3_2', 'delivered_crlf', 'delivered_bytes', 'delivered_bytearray', 'delivered_file', 'delivered_surrounded',
          'extra_headers', 'f6_raised', 'f6_crc_warning', 'f6_same_payload', 'wrong_kind_rejected', 'body_zeros', 'body_ff')
KINDS = ['message', 'message', 'message', 'pubkey', 'privkey', 'signature', 'cleartext']
HEADERS = [[], [], [['Comment', 'hello world']], [['Version', 'PGPy test'], ['Comment', 'two headers']], [['Comment', 'x' * 60]],
           [['Charset', 'utf-8']]]


def generate(rng, tier):
    steps = []
    for i in range(rng.randint(3, 8 if tier == 'thorough' else 5)):
        kind = rng.choice(KINDS)
        st = {'id': 's%d' % i, 'op': 'armor', 'kind': kind, 'size': rng.choice(list(range(0, 100)) + [191, 192, 500, 2000, 4000]),
              'body': rng.choice(['random', 'random', 'zeros', 'ff', 'text']), 'seed': rng.randrange(1 << 30),
              'headers': rng.choice(HEADERS), 'uidlen': rng.randrange(1, 60), 'compression': rng.choice([0, 0, 1, 2]),
              'forms': rng.sample(['str', 'bytes', 'bytearray', 'file', 'crlf', 'surrounded', 'rewrapped'], rng.choice([1, 2, 3])),
              'faults': [{'place': rng.choice(['body', 'body', 'body', 'crc', 'crc', 'header', 'begin', 'end']), 'pos': rng.random(),
                          'ch': rng.choice('ABCDEFGHabcdefgh0123456789+/')} for _ in range(rng.choice([2, 3, 6]))],
              'wrong_kind': rng.random() < 0.3}
        steps.append(st)
    return {'config': {'alg': rng.choice(['ed25519', 'ed25519', 'p256', 'rsa2048' if rng.random() < 0.1 else 'ed25519']),
                       'start_us': 1_600_000_000_000_000}, 'steps': steps}


def simplify(case):
    for i, s in enumerate(case['steps']):
        if len(s['faults']) > 1:
            for j in range(len(s['faults'])):
                c = copy.deepcopy(case)
                c['steps'][i]['faults'] = [s['faults'][j]]
                yield c
        if len(s['forms']) > 1:
            for j in range(len(s['forms'])):
                c = copy.deepcopy(case)
                c['steps'][i]['forms'] = [s['forms'][j]]
                yield c
        if s['headers']:
            c = copy.deepcopy(case)
            c['steps'][i]['headers'] = []
            yield c


def _body(st):
    import random as _r
    r = _r.Random(st['seed'])
    n = st['size']
    if st['body'] == 'zeros':
        return bytes(n)
    if st['body'] == 'ff':
        return b'\xff' * n
    if st['body'] == 'text':
        return (''.join(r.choice('abcdefghij klmnop\n') for _ in range(n))).encode()
    return r.randbytes(n)


def _make(pgpy, key, st, ctx):
    C = pgpy.constants
    kind = st['kind']
    if kind == 'message':
        obj = pgpy.PGPMessage.new(_body(st), compression=C.CompressionAlgorithm(st['compression']), format='b')
        label = 'MESSAGE'
    elif kind == 'pubkey':
        k = world.build_key({'alg': 'ed25519', 'uids': [['U' * st['uidlen'], '', 'u@example.org']], 'usage': 'CS', 'subkeys': []}, 'c10' + st['id'])
        obj, label = k.pubkey, 'PUBLIC KEY BLOCK'
    elif kind == 'privkey':
        obj = world.build_key({'alg': 'ed25519', 'uids': [['V' * st['uidlen'], '', 'v@example.org']], 'usage': 'CS',
                               'subkeys': [{'alg': 'cv25519', 'usage': 'E'}]}, 'c10' + st['id'])
        label = 'PRIVATE KEY BLOCK'
        if st['seed'] % 3 == 0:
            # the public half of a lone subkey, taken before the primary's public half exists: labelled by what it is
            ps = list(obj.subkeys.values())[0].pubkey
            ctx.checked()
            ctx.probe('lone_public_subkey_armored')
            try:
                blk = rarmor.dearmor(str(ps))
                if blk.label != 'PUBLIC KEY BLOCK' or blk.payload != bytes(ps) or split_packets(blk.payload)[0].tag != 14 or not blk.crc_ok:
                    ctx.viol('C10:label-wrong:lone-public-subkey', 'the public half of a private subkey is armored as %r (first packet tag %d, payload %s)'
                             % (blk.label, split_packets(blk.payload)[0].tag, 'equal' if blk.payload == bytes(ps) else 'differs'))
            except rarmor.ArmorError as e:
                ctx.viol('C10:armor-undecodable', 'armor of a lone public subkey: %s' % e)
    elif kind == 'signature':
        obj = key.sign(_body(st))
        label = 'SIGNATURE'
    else:
        text = _body(dict(st, body='text')).decode()
        obj = pgpy.PGPMessage.new(text, cleartext=True)
        obj |= key.sign(obj)
        label = 'SIGNATURE'
    for k, v in st['headers']:
        obj.ascii_headers[k] = v
    return obj, label


def _slow_parse_ahead(text):
    """does the (corrupted) armored text hold a signature packet that declares a subpacket longer than 70000 octets?"""
    from ..ref.wire import WireError, max_declared_subpacket_length, read_packet
    import base64
    import binascii
    ls = text.replace('\r\n', '\n').split('\n')
    try:
        i = max(k for k, ln in enumerate(ls) if ln.startswith('-----BEGIN PG'))
        while ls[i].strip() != '':
            i += 1
        body = []
        for ln in ls[i + 1:]:
            if ln.startswith('=') or ln.startswith('-----'):
                break
            body.append(ln.strip())
        data = base64.b64decode(''.join(body).encode('ascii', 'ignore') + b'==')
    except (ValueError, IndexError, binascii.Error):
        return False
    off = 0
    while off < len(data):
        try:
            pkt, off = read_packet(data, off)
        except (WireError, IndexError):
            return False
        b = pkt.body
        if pkt.tag == 2 and len(b) > 8 and b[0] == 4:
            hl = int.from_bytes(b[4:6], 'big')
            ul = int.from_bytes(b[6 + hl:8 + hl], 'big')
            try:
                if max(max_declared_subpacket_length(b[6:6 + hl]), max_declared_subpacket_length(b[8 + hl:8 + hl + ul])) > 70000:
                    return True
            except (WireError, IndexError, ValueError):
                pass
    return False


def execute(case, ctx):
    import pgpy
    cfg = case['config']
    seams.clock().set(cfg['start_us'])
    key = world.build_key({'alg': cfg['alg'], 'uids': [['Armorer', '', 'a@example.org']], 'usage': 'CS', 'subkeys': []}, 'c10signer')
    kinds = set()
    shapes = []
    judged_fault = False
    for st in case['steps']:
        ctx.step = st['id']
        ctx.steps_done += 1
        seams.rnd().set_step(st['id'])
        obj, label = _make(pgpy, key, st, ctx)
        ctx.probe('kind_' + st['kind'])
        if st['body'] == 'zeros':
            ctx.probe('body_zeros')
        if st['body'] == 'ff':
            ctx.probe('body_ff')
        raw = bytes(obj)
        text = str(obj)
        ctx.probe('payload_mod3_%d' % (len(raw) % 3))
        if st['headers']:
            ctx.probe('extra_headers')
        # ---- (1) independent decoder on what PGPy wrote
        ctx.checked()
        try:
            blk = rarmor.dearmor(text)
        except rarmor.ArmorError as e:
            ctx.viol('C10:armor-undecodable', 'the independent decoder cannot read PGPy\'s armor of a %s: %s' % (st['kind'], e))
        if blk.payload != raw:
            ctx.viol('C10:payload-differs', 'armor of a %s decodes to %d octets, the binary export has %d' % (st['kind'], len(blk.payload), len(raw)))
        want_label = 'SIGNED MESSAGE' if st['kind'] == 'cleartext' else label
        if blk.label != want_label:
            ctx.viol('C10:label', 'a %s is armored as %r' % (st['kind'], blk.label))
        if blk.max_line > 76:
            ctx.viol('C10:line-too-long', 'armor body line of %d characters' % blk.max_line)
        if blk.crc is None:
            ctx.viol('C10:crc-missing', 'no CRC line')
        if not blk.crc_ok:
            ctx.viol('C10:crc-wrong', 'the CRC-24 line does not match the reference CRC of the payload (payload crc %06x, line %06x)'
                     % (rarmor.crc24(raw), blk.crc))
        if rarmor.crc24(raw) < 0x10000:
            ctx.probe('crc_leading_zero_octet')
        got_headers = dict(blk.headers)
        for k, v in st['headers']:
            if got_headers.get(k) != v:
                ctx.viol('C10:header-lost', 'armor header %s: %s is not in the output' % (k, v))
        # ... and no header that was given to another object
        supplied = dict(st['headers'])
        for k, v in blk.headers:
            if k not in supplied and k not in ('Hash',) and not (k == 'Charset' and st['kind'] == 'cleartext'):
                ctx.viol('C10:header-not-supplied', 'armor header %s: %s was never given to this %s' % (k, v[:30], st['kind']))
        kinds.add(st['kind'])
        # ---- (2) loading armored text gives the same object as loading the binary
        cls = {'message': pgpy.PGPMessage, 'cleartext': pgpy.PGPMessage, 'pubkey': pgpy.PGPKey, 'privkey': pgpy.PGPKey,
               'signature': pgpy.PGPSignature}[st['kind']]

        def load(x, from_file=False):
            r = cls.from_file(x) if from_file else cls.from_blob(x)
            return r[0] if isinstance(r, tuple) else r
        forms_used = []
        for form in st['forms']:
            t = text
            ff = False
            if form == 'crlf':
                if st['kind'] == 'cleartext':
                    continue            # cleartext over CRLF channels is C11's business
                t = text.replace('\n', '\r\n')
                ctx.probe('delivered_crlf')
            elif form == 'bytes':
                t = text.encode('ascii')
                ctx.probe('delivered_bytes')
            elif form == 'bytearray':
                t = bytearray(text.encode('ascii'))
                ctx.probe('delivered_bytearray')
            elif form == 'file':
                p = seams.SimFS.ROOT + 'c10-%s.asc' % st['id']
                seams.fs().write(p, text.encode('ascii'))
                t, ff = p, True
                ctx.probe('delivered_file')
            elif form == 'rewrapped':
                # the same armor with its base64 body wrapped at another legal width (other writers use 60, 72 or 76 columns; a
                # mail gateway may use any): the groups of four characters then straddle line ends
                if st['kind'] == 'cleartext':
                    continue
                ls = text.split('\n')
                try:
                    b0 = ls.index('', 1) + 1
                    b1 = max(i for i, x in enumerate(ls) if len(x) == 5 and x.startswith('='))
                except ValueError:
                    continue
                joined = ''.join(ls[b0:b1])
                width = [30, 62, 65, 70, 75, 76, 33, 48][st['seed'] % 8]
                while joined and len(joined) % width != 0 and not joined[-(len(joined) % width):].strip('='):
                    width -= 1          # a last line of pad characters alone is not generated
                t = '\n'.join(ls[:b0] + [joined[i:i + width] for i in range(0, len(joined), width)] + ls[b1:])
                if width % 4:
                    ctx.probe('delivered_rewrapped_off_group')
            elif form == 'surrounded':
                pre = 'Dear reader,\nsome mail text: with a colon\n\n'
                if st['seed'] % 2:
                    # the text in front quotes an armor header line (a reply quoting an older block, a sentence about the format)
                    pre = 'You wrote:\n> -----BEGIN PGP MESSAGE-----\n> (snipped)\nand the line "-----BEGIN PGP " starts every block.\n\n'
                    ctx.probe('surrounding_text_quotes_armor_header')
                t = pre + text + '\n-- \nsignature block\n'
                ctx.probe('delivered_surrounded')
            ctx.perturb(form)
            forms_used.append(form)
            ctx.checked()
            with warnings.catch_warnings(record=True) as wl:
                warnings.simplefilter('always')
                try:
                    o2 = load(t, ff)
                except Exception as e:
                    ctx.viol('C10:own-armor-unloadable:%s:%s' % (form, type(e).__name__),
                             'PGPy cannot load its own armored %s delivered as %s: %s' % (st['kind'], form, e))
                    continue
            if any('crc24' in str(x.message).lower() for x in wl):
                ctx.viol('C10:spurious-crc-warning:%s' % form, 'loading an uncorrupted armored %s (%s) reports a CRC mismatch' % (st['kind'], form))
            if isinstance(t, bytearray) and bytes(t) != text.encode('ascii'):
                ctx.viol('C10:caller-buffer-changed:armor', 'loading an armored %s from a bytearray changed the caller\'s bytearray (%d -> %d octets)'
                         % (st['kind'], len(text), len(t)))
            if bytes(o2) != raw:
                ctx.viol('C10:armor-load-differs:%s' % form, 'a %s loaded from armor (%s) exports other octets than the original' % (st['kind'], form))
        # ---- (2b) "the same object as loading the binary": the binary export loads to the same octets, as bytes and as bytearray
        if st['kind'] != 'cleartext':
            for bform, blob in (('bytes', raw), ('bytearray', bytearray(raw))):
                ctx.checked()
                try:
                    ob = load(blob)
                    braw = bytes(ob)
                except Exception as e:
                    ctx.viol('C10:own-binary-unloadable:%s:%s' % (bform, type(e).__name__), 'PGPy cannot load its own binary %s export (%s): %s'
                             % (st['kind'], bform, e))
                    continue
                if bytes(blob) != raw:
                    # the input is the caller's: a second load of the same buffer must see the same octets
                    ctx.viol('C10:caller-buffer-changed:binary', 'loading a binary %s from a bytearray changed the caller\'s bytearray (%d -> %d octets)'
                             % (st['kind'], len(raw), len(blob)))
                if braw != raw:
                    ctx.viol('C10:binary-load-differs:%s' % bform, 'a %s loaded from its binary export (%s) exports other octets (%d vs %d)'
                             % (st['kind'], bform, len(braw), len(raw)))
            if raw[-1:] in b' \t\n\r\x0b\x0c':
                ctx.probe('binary_ends_in_whitespace_octet')
        # ---- (3) wrong kind is rejected
        if st.get('wrong_kind'):
            # every other class must refuse the block (a cleartext message holds a SIGNATURE block: PGPSignature may read that one)
            others = {'message': (pgpy.PGPKey, pgpy.PGPSignature), 'cleartext': (pgpy.PGPKey,), 'pubkey': (pgpy.PGPSignature, pgpy.PGPMessage),
                      'privkey': (pgpy.PGPMessage, pgpy.PGPSignature), 'signature': (pgpy.PGPKey, pgpy.PGPMessage)}
            for other in others[st['kind']]:
                for wform in ('str', 'bytes'):
                    ctx.checked()
                    try:
                        other.from_blob(text if wform == 'str' else text.encode('ascii'))
                    except Exception:
                        ctx.probe('wrong_kind_rejected')
                    else:
                        ctx.viol('C10:wrong-kind-accepted:%s' % st['kind'], 'an armored %s (%s) was accepted by %s.from_blob'
                                 % (st['kind'], wform, other.__name__))
        # ---- (4) F6: single-character corruption
        lines = text.split('\n')
        bi = [i for i, ln in enumerate(lines) if ln and not ln.startswith('-----') and ': ' not in ln and not ln.startswith('=')]
        # armor body lines are those after the blank line that ends the header section of the (last) block
        start = max(i for i, ln in enumerate(lines) if ln.startswith('-----BEGIN PGP ')) + 1
        while start < len(lines) and lines[start].strip() != '':
            start += 1
        body_idx = [i for i in range(start + 1, len(lines)) if lines[i] and not lines[i].startswith('=') and not lines[i].startswith('-----')]
        crc_idx = [i for i in range(start, len(lines)) if lines[i].startswith('=') and len(lines[i]) == 5]
        for f in st['faults']:
            ls = list(lines)
            place = f['place']
            if place == 'body' and body_idx:
                i = body_idx[int(f['pos'] * len(body_idx)) % len(body_idx)]
                j = int(f['pos'] * 7919) % len(ls[i])
                if ls[i][j] == '=' or ls[i][j] == f['ch']:
                    continue
                ls[i] = ls[i][:j] + f['ch'] + ls[i][j + 1:]
            elif place == 'crc' and crc_idx:
                i = crc_idx[-1]
                j = int(f['pos'] * 5) % 5            # the '=' that marks the line, or one of the four checksum characters
                if ls[i][j] == f['ch']:
                    continue
                ls[i] = ls[i][:j] + f['ch'] + ls[i][j + 1:]
            elif place == 'header':
                hi = [i for i in range(len(ls)) if ': ' in ls[i] and i < start]
                if not hi:
                    continue
                i = hi[0]
                ls[i] = ls[i].replace(': ', ':', 1)
            elif place == 'begin':
                i = max(k for k, ln in enumerate(ls) if ln.startswith('-----BEGIN PGP '))
                ls[i] = ls[i].replace('BEGIN PGP', 'BEGIN PGq', 1)
            elif place == 'end':
                i = max(k for k, ln in enumerate(ls) if ln.startswith('-----END PGP '))
                ls[i] = ls[i].replace('END PGP', 'END PGq', 1)
            else:
                continue
            mut = '\n'.join(ls)
            if mut == text:
                continue
            if _slow_parse_ahead(mut):
                # a corrupted character that turns a subpacket length into a 32-bit one sends PGPy's flag-subpacket
                # parser round a loop of up to 2^32 turns: it ends, hours later; not a statement of this property
                ctx.probe('f6_skipped_slow_parse')
                continue
            ctx.fault('F6_' + place)
            judged_fault = True
            ctx.checked()
            with warnings.catch_warnings(record=True) as wl:
                warnings.simplefilter('always')
                try:
                    with watchdog(60):
                        o3 = load(mut)
                        out3 = bytes(o3)
                except CallTimeout:
                    ctx.probe('pgpy_call_timeout')
                    continue
                except Exception:
                    ctx.probe('f6_raised')
                    continue
            if any('crc24' in str(x.message).lower() for x in wl):
                ctx.probe('f6_crc_warning')
                continue
            if out3 == raw and place != 'crc':
                # a changed character that only touches the unused low bits of the last base64 group
                ctx.probe('f6_same_payload')
                continue
            ctx.viol('C10:corruption-unreported:%s' % place,
                     'a corrupted character in the armor %s of a %s changed the decoded object and neither an error nor a CRC warning was raised'
                     % (place, st['kind']))
        shapes.append('%s/%d/%s/%s' % (st['kind'], len(raw) % 48, '+'.join(forms_used), '+'.join(sorted(set(f['place'] for f in st['faults'])))))
        ctx.event(st['id'], st['kind'], len(st['forms']), len(st['faults']))
    if len(kinds) >= 2 and judged_fault:
        ctx.mark_nontrivial('|'.join(shapes))
