"""C17 - verification verdicts are coherent: disqualifying conditions always disqualify.

Verifier checks over the product of key strength (Ed25519 / NIST curves / RSA and
DSA 1024 and 2048), hash (collision resistant or not), key expiry relative to the
verifier's clock, key or subkey revocation, self or third-party subject, correct or
corrupted signature, one or several signatures examined in one call - while the
simulated clock moves across the key's expiry between signing and verifying (T3)
and the verifier may be behind the signer (T4).  Oracle: an expired verifying key
or a signature the reference peer finds cryptographically wrong gives a falsy
result whatever advisory weaknesses are present; every examined signature is
listed exactly once as good or bad; the result is truthy exactly when none is bad;
a wrong signature is always bad."""
import copy
import datetime

from .. import bridge, seams, sigworld, world
from ..ref import enc as renc, sigs as rsigs
from ..ref.wire import WireError, encode_packet, split_packets

ID = 'C17'
RULE = ('cases are histories of 4-12 steps (sign, corrupt, tick across expiry, verify) over 2-3 keys drawn from the strength x '
        'expiry x revocation product; a run is non-trivial when a verification was evaluated with a disqualifier (expired key or '
        'wrong signature) present together with at least one advisory weakness; distinct = distinct (issue-class combination, '
        'subject kind, signature count) sets')
TIERS = {'quick': {'runs': 4000, 'budget_s': 80}, 'thorough': {'runs': 200000, 'budget_s': 1500}}
PROBES = ('key_lifetime_changed_by_newer_self_certification', 'newest_self_certification_names_issuer_by_key_id_only', 'secret_key_verifies', 'secret_key_with_older_public_copy', 'issuer_forged_to_encryption_subkey', 'results_combined', 'combined_good_then_bad', 'expired_and_insecure_curve', 'expired_and_short_key', 'expired_and_revoked', 'expired_strong', 'wrongsig_and_revoked',
          'wrongsig_and_insecure_curve', 'wrongsig_and_short_key', 'wrongsig_and_weak_hash', 'clock_crossed_expiry', 'verifier_behind_signer',
          'multi_signature_call', 'verify_key_call', 'subkey_revoked_signer', 'all_good')
KEYALGS = ['ed25519', 'ed25519', 'p256', 'p384', 'secp256k1', 'rsa1024', 'dsa1024', 'rsa2048', 'dsa2048']
DAY = 86400


def generate(rng, tier):
    keys = {}
    for i in range(rng.choice([2, 2, 3])):
        alg = rng.choice(KEYALGS)
        subs = [{'alg': rng.choice(['ed25519', 'p256']), 'usage': 'S'}] if rng.random() < 0.4 else []
        has_enc = rng.random() < 0.4
        keys['k%d' % i] = {'alg': alg, 'uids': [['Signer %d' % i, '', 's%d@example.org' % i]],
                           'subkeys': subs + ([{'alg': 'cv25519', 'usage': 'E'}] if has_enc else []),
                           'usage': 'C' if subs and rng.random() < 0.5 else 'CS', 'created_us': 1_500_000_000_000_000,
                           'key_expiration_s': rng.choice([None, None, 10 * DAY, 400 * DAY, 4000 * DAY]),
                           'revoked': rng.random() < 0.25, 'revoked_subkeys': [0] if subs and rng.random() < 0.25 else [],
                           'created_tz': 'naive_utc' if rng.random() < 0.2 else None}
    knames = sorted(keys)
    steps = []
    n = rng.randint(4, 12 if tier == 'thorough' else 8)
    for i in range(n):
        sid = 's%d' % i
        r = rng.random()
        if r < 0.1:
            # the key's owner certifies the identity again, with another key lifetime; the issuer is named by key id alone (as
            # older implementations do) or by fingerprint: the most recent self-certification decides
            steps.append({'id': sid, 'op': 'recertify', 'key': rng.choice(knames), 'key_expiration_s': rng.choice([7 * DAY, 10 * DAY, 400 * DAY, 4000 * DAY]),
                          'no_issuer_fpr': rng.random() < 0.6})
        elif r < 0.3:
            steps.append({'id': sid, 'op': 'tick', 'delta_s': rng.choice([0, 1, DAY, 11 * DAY, 401 * DAY, 401 * DAY, 4001 * DAY, -2 * DAY, -500 * DAY])})
        else:
            kind = rng.choice(['doc', 'doc', 'msg', 'msg', 'cert_self', 'cert_other', 'inkey'])
            steps.append({'id': sid, 'op': 'sign_verify', 'kind': kind, 'key': rng.choice(knames), 'target': rng.choice(knames),
                          'hash': rng.choice([8, 8, 10, 2, 1, 11]), 'nsigners': rng.choice([1, 2, 3]),
                          'corrupt': rng.choice([None, None, 'subject', 'sig', 'sig', 'issuer_encsub']), 'pos': rng.random(), 'bit': rng.randrange(8),
                          'verify_after_tick_s': rng.choice([0, 0, 11 * DAY, 401 * DAY, -DAY]),
                          'combine': rng.choice([None, None, 'and', 'iand']), 'cosign_subkey': rng.random() < 0.4,
                          'vform': rng.choice([None, None, None, 'secret', 'stale_twin'])})
    return {'config': {'keys': keys, 'start_us': 1_500_000_000_000_000 + 5 * DAY * 1_000_000}, 'steps': steps}


def simplify(case):
    for i, s in enumerate(case['steps']):
        if s['op'] == 'sign_verify':
            for f, v in (('nsigners', 1), ('hash', 8), ('corrupt', None), ('verify_after_tick_s', 0), ('vform', None)):
                if s.get(f) != v:
                    c = copy.deepcopy(case)
                    c['steps'][i][f] = v
                    yield c
    for k in sorted(case['config']['keys']):
        kk = case['config']['keys'][k]
        for f, v in (('revoked', False), ('revoked_subkeys', []), ('subkeys', [])):
            if kk.get(f):
                c = copy.deepcopy(case)
                c['config']['keys'][k][f] = v
                if f == 'subkeys':
                    c['config']['keys'][k]['usage'] = 'CS'
                    c['config']['keys'][k]['revoked_subkeys'] = []
                yield c


def _classes(w, name, now_us, hash_id):
    cfg = w.cfg[name]
    out = set()
    if cfg['alg'] in ('p256', 'p384', 'p521', 'secp256k1'):
        out.add('insecure_curve')
    if cfg['alg'] in ('rsa1024', 'dsa1024'):
        out.add('short_key')
    if cfg.get('revoked'):
        out.add('revoked')
    if hash_id in (1, 2, 11):
        out.add('weak_hash')
    exp = cfg.get('key_expiration_s')
    expired = exp is not None and cfg['created_us'] + exp * 1_000_000 <= now_us
    return out, expired


def execute(case, ctx):
    import pgpy
    cfg = case['config']
    clock = seams.clock()
    w = sigworld.SigWorld(copy.deepcopy(cfg['keys']), ctx)
    clock.set(cfg['start_us'])
    newest = {}
    combos = set()
    w.results = []
    for step in case['steps']:
        ctx.step = step['id']
        ctx.steps_done += 1
        seams.rnd().set_step(step['id'])
        if step['op'] == 'tick':
            clock.advance(step['delta_s'] * 1_000_000)
            if step['delta_s'] < 0:
                ctx.probe('verifier_behind_signer')
            ctx.event(step['id'], 'tick', step['delta_s'])
            continue
        if step['op'] == 'recertify':
            name = step['key']
            k = w.keys.get(name)
            sec = clock.us // 1_000_000
            if k is None or k.is_public or sec <= newest.get(name, w.cfg[name]['created_us'] // 1_000_000):
                continue
            C = pgpy.constants
            uid = k.userids[0]
            uid |= k.certify(uid, C.SignatureType.Positive_Cert, usage=world.flags_from(w.cfg[name].get('usage', 'CS')),
                             hashes=[C.HashAlgorithm.SHA256], key_expiration=datetime.timedelta(seconds=step['key_expiration_s']),
                             include_issuer_fingerprint=not step['no_issuer_fpr'])
            newest[name] = sec
            w.cfg[name]['key_expiration_s'] = step['key_expiration_s']
            ctx.probe('key_lifetime_changed_by_newer_self_certification')
            if step['no_issuer_fpr']:
                ctx.probe('newest_self_certification_names_issuer_by_key_id_only')
            ctx.event(step['id'], 'recertify', step['key_expiration_s'])
            continue
        _sign_verify(pgpy, w, step, ctx, combos)
    if combos:
        ctx.mark_nontrivial(';'.join(sorted(combos)))


def _verifier_form(pgpy, w, name, art, step, ctx, keep):
    """The verifier may hold the key in another form than a freshly imported public key: its own secret key, or its secret
    key linked (documented `pubkey` setter) to a public copy that was exported before the current self-signatures were made.
    The conditions of the key that was asked to verify decide, not those of an object linked to it."""
    form = step.get('vform')
    own = w.keys[name]
    if not form or own.is_public or art.verifier != bytes(own.pubkey):
        return None
    sec = pgpy.PGPKey.from_blob(bytes(own))[0]
    if form == 'stale_twin':
        try:
            pk = split_packets(art.verifier)
        except WireError:
            return None
        out, after_uid = bytearray(), False
        for p in pk:
            if p.tag in (13, 17):
                after_uid = True
            elif p.tag == 14:
                after_uid = False
            if p.tag == 2 and after_uid and len(p.body) > 1 and p.body[1] in (0x10, 0x11, 0x12, 0x13):
                continue
            out += p.raw
        pub = pgpy.PGPKey.from_blob(bytes(out))[0]
        sec.pubkey = pub
        keep.append(pub)
        ctx.probe('secret_key_with_older_public_copy')
    else:
        ctx.probe('secret_key_verifies')
    return sec


def _sign_verify(pgpy, w, step, ctx, combos):
    clock = seams.clock()
    name = step['key']
    if name not in w.keys:
        return
    st = {'id': step['id'], 'op': 'sign', 'cosign_subkey': bool(step.get('cosign_subkey')),
          'kind': step['kind'] if step['kind'] != 'inkey' else 'cert_self', 'key': name,
          'target': step['target'], 'hash': step['hash'], 'nsigners': step['nsigners'], 'compression': 0, 'uid_index': 0, 'sub_index': 0,
          'level': 0x13, 'data': b'verdict coherence'.hex(), 'text': 'x', 'opts': {}}
    # signing happens while the key is still usable for the signer; an expired key still signs in PGPy
    art = w.produce(st)
    if art is None:
        return
    if step['kind'] == 'inkey':
        art = sigworld.Artifact('inkey')
        art.verifier = bytes(w.keys[name].pubkey)
        art.subject = {'t': 'inkey', 'keybytes': bytes(w.keys[name].pubkey)}
        art.signer_name = name
    forged = False
    # corruption
    if step.get('corrupt') == 'subject':
        s = art.subject
        if s['t'] == 'doc' and s['data']:
            m = bytearray(s['data'])
            m[int(step['pos'] * len(m)) % len(m)] ^= 1 << step['bit']
            s['data'] = bytes(m)
        elif s['t'] == 'msg':
            pk = split_packets(s['bytes'])
            out = bytearray()
            for p in pk:
                if p.tag == 11 and len(p.body) > 7:
                    b = bytearray(p.raw)
                    b[-1 - int(step['pos'] * (len(p.body) - 7))] ^= 1 << step['bit']
                    out += b
                else:
                    out += p.raw
            s['bytes'] = bytes(out)
    elif step.get('corrupt') == 'issuer_encsub' and art.sig is not None:
        # the signature re-pointed at the key's own encryption subkey (a component without any signature scheme): whatever
        # comes back, it is not a good signature
        from ..ref.wire import split_subpackets
        own = w.keys[name]
        nosign = [sk for sk in own.subkeys.values() if not sk.key_algorithm.can_sign]
        try:
            body = split_packets(art.sig)[0].body
            hl = int.from_bytes(body[4:6], 'big')
            ul = int.from_bytes(body[6 + hl:8 + hl], 'big')
            iss = [x for x in split_subpackets(body[8 + hl:8 + hl + ul]) if x.type == 16]
        except (WireError, IndexError):
            iss = []
        if nosign and iss:
            o = 8 + hl + iss[-1].off + len(iss[-1].raw) - 8
            nb = bytearray(body)
            nb[o:o + 8] = bytes.fromhex(str(nosign[0].fingerprint))[-8:]
            art.sig = encode_packet(2, bytes(nb))
            forged = True
            ctx.probe('issuer_forged_to_encryption_subkey')
    elif step.get('corrupt') == 'sig' and art.sig is not None:
        m = bytearray(art.sig)
        m[-1 - int(step['pos'] * 20)] ^= 1 << step['bit']
        art.sig = bytes(m)
    t_sign = clock.us
    if step.get('verify_after_tick_s'):
        clock.advance(step['verify_after_tick_s'] * 1_000_000)
    now = clock.us
    keep = []
    # --- verifier
    try:
        if art.kind == 'inkey':
            K = pgpy.PGPKey.from_blob(art.verifier)[0]
            res = K.verify(K)
            ctx.probe('verify_key_call')
        else:
            res = w.pgpy_verify(art, verifier=_verifier_form(pgpy, w, name, art, step, ctx, keep))
    except Exception as e:
        ctx.event(step['id'], 'verify', 'raised', type(e).__name__)
        clock.set(max(now, t_sign))
        return
    ctx.checked()
    good = list(res.good_signatures)
    bad = list(res.bad_signatures)
    truthy = bool(res)
    if forged and (good or (truthy and len(res))):
        ctx.viol('C17:wrong-signature-good:forged-issuer', 'a signature whose issuer was rewritten to the key\'s encryption subkey is reported good '
                 '(good=%d, truthy=%s)' % (len(good), truthy))
    # coherence of the returned object
    if len(good) + len(bad) != len(res):
        ctx.viol('C17:not-partitioned', 'good (%d) + bad (%d) != signatures examined (%d)' % (len(good), len(bad), len(res)))
    ids = [id(x.signature) for x in good + bad]
    if len(ids) != len(set(ids)):
        ctx.viol('C17:listed-twice', 'a signature is listed more than once')
    if truthy != (len(bad) == 0):
        ctx.viol('C17:truthiness-incoherent', 'bool(result)=%s but %d signature(s) are bad' % (truthy, len(bad)))
    if len(res) > 1:
        ctx.probe('multi_signature_call')
    # --- results accumulate with '&' (that is how PGPy itself gathers several signatures into one object): the accumulated
    # object, whose truth value has been looked at before, must be as coherent as a fresh one
    if step.get('combine') and w.results:
        prev, pg, pb = w.results[-1]
        ctx.checked()
        ctx.probe('results_combined')
        if pb == 0 and bad:
            ctx.probe('combined_good_then_bad')
        if step['combine'] == 'and':
            comb = prev & res
        else:
            comb = prev
            comb &= res
        cg, cb = list(comb.good_signatures), list(comb.bad_signatures)
        if len(cg) != pg + len(good) or len(cb) != pb + len(bad) or len(comb) != len(cg) + len(cb):
            ctx.viol('C17:combined-not-partitioned', 'combining results with %d+%d and %d+%d good+bad signatures lists %d+%d of %d'
                     % (pg, pb, len(good), len(bad), len(cg), len(cb), len(comb)))
        if bool(comb) != (len(cb) == 0):
            ctx.viol('C17:combined-truthiness-incoherent', 'bool(combined result)=%s but %d signature(s) are bad' % (bool(comb), len(cb)))
        w.results.append((comb, len(cg), len(cb)))
    else:
        w.results.append((res, len(good), len(bad)))
    # --- per signature: disqualifiers vs verdict
    classes, expired = _classes(w, name, now, step['hash'])
    if art.kind == 'inkey':
        rv_entries = None
    else:
        rv = sigworld.ref_view(art)
        rv_entries = {(e[0].hashed, tuple(e[0].mpis)): e for e in rv.entries} if not rv.error else {}
    if t_sign < w.cfg[name]['created_us'] + (w.cfg[name].get('key_expiration_s') or 10 ** 12) * 1_000_000 <= now:
        ctx.probe('clock_crossed_expiry')
    for entry, listed_good in [(g, True) for g in good] + [(b, False) for b in bad]:
        wrong = None
        if rv_entries is not None:
            try:
                gs = bridge.ref_sig(bytes(entry.signature))
                e = rv_entries.get((gs.hashed, tuple(gs.mpis)))
                if e is not None and e[1] is not None:
                    wrong = not sigworld.ref_valid(e)
            except (WireError, Exception):
                wrong = None
        # which key verified it: the primary named in the step, or one of its subkeys
        sub_revoked = False
        if str(entry.by.fingerprint) != str(w.keys[name].fingerprint):
            subs = list(w.keys[name].subkeys.values())
            for i, sk in enumerate(subs):
                if str(sk.fingerprint) == str(entry.by.fingerprint) and i in w.cfg[name].get('revoked_subkeys', []):
                    sub_revoked = True
                    ctx.probe('subkey_revoked_signer')
        cls = set(classes) | ({'revoked'} if sub_revoked else set())
        if str(entry.by.fingerprint) != str(w.keys[name].fingerprint):
            # a subkey has no expiry of its own in these histories; strength classes are the subkey's
            cls -= {'insecure_curve', 'short_key'}
            if entry.by.key_algorithm.name == 'ECDSA':
                cls.add('insecure_curve')
            key_expired = False
        else:
            key_expired = expired
        if key_expired:
            for c in cls or {'strong'}:
                ctx.probe({'insecure_curve': 'expired_and_insecure_curve', 'short_key': 'expired_and_short_key', 'revoked': 'expired_and_revoked',
                           'strong': 'expired_strong', 'weak_hash': 'expired_strong'}[c])
            combos.add('expired+' + '+'.join(sorted(cls)))
            if listed_good:
                ctx.viol('C17:expired-key-accepted:%s' % ('+'.join(sorted(cls)) or 'none'),
                         'a signature is listed as good although the verifying key expired before the verifier\'s clock (advisory issues present: %s)'
                         % (sorted(cls) or 'none'))
        if wrong:
            for c in cls:
                ctx.probe('wrongsig_and_' + c)
            combos.add('wrong+' + '+'.join(sorted(cls)))
            if listed_good:
                ctx.viol('C17:wrong-signature-good:%s' % ('+'.join(sorted(cls)) or 'none'),
                         'a cryptographically wrong signature is listed as good (advisory issues present: %s)' % (sorted(cls) or 'none'))
        if not key_expired and wrong is False and listed_good:
            ctx.probe('all_good')
    ctx.event(step['id'], 'verify', step['kind'], len(good), len(bad), truthy)
    # the verifier's excursion does not move the signers' clock backwards for later steps
    clock.set(max(now, t_sign)) if step.get('verify_after_tick_s', 0) >= 0 else clock.set(t_sign)
