"""C16 - key-usage policy: operations use a component allowed to perform them, or refuse.

Keys with every assignment of capability sets to a primary and 0-3 subkeys,
identities carrying different flags, re-binding and re-certifying over time under a
clock that usually does not advance (which self-signature is "most recent"), flag
enforcement on and off; operations sign / certify / encrypt (with user=) / decrypt
on public, private-unprotected, private-locked and private-unlocked forms, and on
keys without identities.  A small model computes from the certificate history the
set of components allowed to act; the output must name a component in that set and
that component must verify / decrypt it (reference peer)."""
import copy

from .. import bridge, seams, world
from ..ref import enc as renc, keys as rkeys, sigs as rsigs, tkey as rtkey
from ..ref.wire import WireError, split_packets

ID = 'C16'
RULE = ('cases are one key shape (primary + 0-3 subkeys, 1-2 identities with their own flag sets) followed by 4-14 steps '
        '(re-bind subkey with other usage, re-certify identity with other usage, tick, sign / certify / encrypt / decrypt with or '
        'without user=, on a drawn key form, enforcement on or off); a run is non-trivial when an operation was judged against a '
        'model in which the primary lacked the capability and a subkey had it, or nobody had it, or a re-binding had changed a '
        'subkey\'s capability; distinct = distinct (capability layout, operation, form, enforcement) tuples')
TIERS = {'quick': {'runs': 4000, 'budget_s': 80}, 'thorough': {'runs': 200000, 'budget_s': 1500}}
PROBES = ('rebinding_without_key_flags', 'second_recipient_same_algorithm_first', 'foreign_binding_added', 'locked_key_with_unprotected_subkey', 'last_identity_removed', 'unhashed_key_flags_added', 'recertify_without_issuer_fingerprint', 'subkey_used', 'primary_used', 'nobody_allowed_enforced', 'nobody_allowed_not_enforced', 'rebinding_changed_capability',
          'recertify_changed_capability', 'same_second_rebinding', 'form_public', 'form_locked', 'form_unlocked', 'form_unprotected', 'form_copy',
          'no_identity_key', 'user_selected_identity', 'two_capable_subkeys', 'decrypt_by_subkey', 'encrypt_on_private_refused',
          'decrypt_stored_message', 'decrypt_stored_after_capability_lost')
SIGN_ALGS = ['ed25519', 'ed25519', 'p256', 'p384']
FLAGSETS = ['', 'C', 'S', 'CS', 'E', 'ET', 'A', 'SA', 'CSE', 'T']


def generate(rng, tier):
    palg = rng.choice(SIGN_ALGS + (['rsa2048'] if rng.random() < 0.1 else []))
    # the second identity's name is contained in the first one's: selecting by user= is by equality, not by containment
    names = rng.choice([['Primary Person', 'Second Hat'], ['Joann Smith', 'ann Smith'], ['Dr. Max Power', 'Max Power']])
    uids = [{'name': names[0], 'usage': rng.choice(['C', 'CS', 'CS', 'CSE' if palg.startswith('rsa') else 'CS', 'CA', ''])}]
    if rng.random() < 0.4:
        uids.append({'name': names[1], 'usage': rng.choice(['C', 'CS', 'S', 'CA'])})
    subs = []
    for i in range(rng.choice([0, 1, 1, 2, 2, 3])):
        alg = rng.choice(['ed25519', 'p256', 'cv25519', 'cv25519', 'ecdh_p256'])
        u = rng.choice(['S', 'S', 'A', 'SA']) if world.can_sign(alg) else rng.choice(['E', 'E', 'T', 'ET'])
        subs.append({'alg': alg, 'usage': u})
    steps = []
    n = rng.randint(4, 14 if tier == 'thorough' else 9)
    for i in range(n):
        sid = 's%d' % i
        r = rng.random()
        if r < 0.15 and subs:
            j = rng.randrange(len(subs))
            # 'none': a binding made without usage= carries no Key Flags subpacket at all; being the most recent, it grants nothing
            u = rng.choice(['S', 'A', 'SA', 'none']) if world.can_sign(subs[j]['alg']) else rng.choice(['E', 'T', 'ET', 'A'])
            steps.append({'id': sid, 'op': 'rebind', 'sub': j, 'usage': u})
        elif r < 0.27:
            steps.append({'id': sid, 'op': 'recertify', 'uid': rng.randrange(len(uids)), 'usage': rng.choice(['C', 'CS', 'S', 'CA', 'CSE' if palg.startswith('rsa') else 'CS']),
                          'no_issuer_fpr': rng.random() < 0.3})
        elif r < 0.37:
            steps.append({'id': sid, 'op': 'tick', 'delta_us': rng.choice([0, 0, 500_000, 1_000_000, 86400_000_000])})
        elif r < 0.42:
            # the key travels over a channel that adds a Key Flags subpacket to the unhashed (unauthenticated) area of its
            # self-certifications and bindings: what the signatures grant is what their hashed areas say
            if rng.random() < 0.5:
                steps.append({'id': sid, 'op': 'hop_unhashed_flags', 'flags': rng.choice([0x03, 0x0C, 0x20, 0x2F, 0x00, 0x02])})
            else:
                # ... or appends, to every subkey, a later binding signature issued by somebody else's key with other flags
                steps.append({'id': sid, 'op': 'hop_foreign_binding', 'flags': rng.choice([0x02, 0x0C, 0x20, 0x2E, 0x00])})
        else:
            steps.append({'id': sid, 'op': rng.choice(['sign', 'sign', 'certify', 'encrypt', 'encrypt', 'decrypt']),
                          'form': rng.choice(['unprotected', 'unprotected', 'unlocked', 'locked', 'public', 'copy']),
                          'user': rng.randrange(len(uids)) if rng.random() < 0.35 else None,
                          'enforce': rng.random() < 0.75, 'stored': rng.randrange(8) if rng.random() < 0.6 else None,
                          'mixed_protection': rng.random() < 0.4, 'co': rng.random() < 0.3})
    return {'config': {'primary': palg, 'uids': uids, 'subs': subs, 'no_identity': rng.random() < 0.06,
                       'start_us': 1_600_000_000_000_000}, 'steps': steps}


def simplify(case):
    for i, s in enumerate(case['steps']):
        if s.get('user') is not None:
            c = copy.deepcopy(case)
            c['steps'][i]['user'] = None
            yield c
        if s.get('form') not in (None, 'unprotected'):
            c = copy.deepcopy(case)
            c['steps'][i]['form'] = 'unprotected'
            yield c
    cfg = case['config']
    if len(cfg['subs']) > 0:
        for j in range(len(cfg['subs'])):
            if not any(s.get('sub') == j for s in case['steps']):
                pass
    if len(cfg['uids']) > 1 and not any(s.get('user') == 1 or s.get('uid') == 1 for s in case['steps']):
        c = copy.deepcopy(case)
        c['config']['uids'] = cfg['uids'][:1]
        yield c


class Model(object):
    def __init__(self):
        self.uid_flags = {}      # uid index -> list of (rank, flags str)
        self.sub_flags = {}      # sub index -> list of (rank, flags str)

    @staticmethod
    def latest(lst):
        return max(lst, key=lambda x: x[0])[1] if lst else ''


NEED = {'sign': 'S', 'certify': 'C', 'encrypt': 'ET', 'decrypt': None}


def execute(case, ctx):
    import pgpy
    C = pgpy.constants
    cfg = case['config']
    clock = seams.clock()
    clock.set(cfg['start_us'])
    rnd = seams.rnd()
    rnd.set_step('build')
    key = world.new_key(cfg['primary'], 'c16', cfg['start_us'])
    m = Model()
    seq = [0]

    def rank():
        seq[0] += 1
        return (clock.us, seq[0])

    if cfg.get('no_identity'):
        ctx.probe('no_identity_key')
        _no_identity(pgpy, key, ctx)
        return
    uid_objs = []
    for i, u in enumerate(cfg['uids']):
        uo = pgpy.PGPUID.new(u['name'], email='u%d@example.org' % i)
        key.add_uid(uo, usage=world.flags_from(u['usage']), hashes=[C.HashAlgorithm.SHA256], ciphers=[C.SymmetricKeyAlgorithm.AES256],
                    primary=(i == 0))
        m.uid_flags[i] = [(rank(), u['usage'])]
        uid_objs.append(uo)
    sub_objs = []
    for j, s in enumerate(cfg['subs']):
        so = world.new_key(s['alg'], 'c16.sub%d' % j, cfg['start_us'])
        key.add_subkey(so, usage=world.flags_from(s['usage']))
        m.sub_flags[j] = [(rank(), s['usage'])]
        sub_objs.append(so)
    passphrase = 'c16 pass'
    shapes = set()
    protected_copy = None
    for step in case['steps']:
        ctx.step = step['id']
        ctx.steps_done += 1
        rnd.set_step(step['id'])
        op = step['op']
        if op == 'tick':
            clock.advance(step['delta_us'])
            continue
        if op in ('hop_unhashed_flags', 'hop_foreign_binding'):
            ctx.probe('unhashed_key_flags_added' if op == 'hop_unhashed_flags' else 'foreign_binding_added')
            names = [str(u.name) for u in uid_objs]
            subfps = [str(so.fingerprint) for so in sub_objs]
            try:
                if op == 'hop_unhashed_flags':
                    wire = _add_unhashed_flags(bytes(key), step['flags'])
                else:
                    wire = _add_foreign_bindings(bytes(key), step['flags'], clock.us // 1_000_000 + 3600, case['run_seed'], step['id'])
                key = pgpy.PGPKey.from_blob(wire)[0]
            except Exception as e:
                ctx.viol('C16:tampered-key-unreadable:%s' % type(e).__name__, 'a key with a Key Flags subpacket added to unhashed areas cannot be loaded: %s' % e)
            uid_objs = [next(u for u in key.userids if str(u.name) == n) for n in names]
            sub_objs = [next(sk for sk in key.subkeys.values() if str(sk.fingerprint) == f) for f in subfps]
            protected_copy = None
            continue
        if op == 'rebind':
            j = step['sub']
            if j >= len(sub_objs):
                continue
            before = Model.latest(m.sub_flags[j])
            prev_t = max(r[0][0] for r in m.sub_flags[j])
            try:
                if step['usage'] == 'none':
                    sig = key.bind(sub_objs[j])
                else:
                    sig = key.bind(sub_objs[j], usage=world.flags_from(step['usage']))
                sub_objs[j] |= sig
            except Exception as e:
                ctx.event(step['id'], 'rebind', 'raised', type(e).__name__)
                continue
            if step['usage'] == 'none':
                step = dict(step, usage='')
                ctx.probe('rebinding_without_key_flags')
            m.sub_flags[j].append((rank(), step['usage']))
            if prev_t // 1_000_000 == clock.us // 1_000_000:
                ctx.probe('same_second_rebinding')
            if set(before) != set(step['usage']):
                ctx.probe('rebinding_changed_capability')
            protected_copy = None
            continue
        if op == 'recertify':
            i = step['uid']
            if i >= len(uid_objs):
                continue
            before = Model.latest(m.uid_flags[i])
            try:
                extra = {}
                if step.get('no_issuer_fpr'):
                    # a self-certification that names its issuer by key id only (as older implementations write them)
                    extra['include_issuer_fingerprint'] = False
                    ctx.probe('recertify_without_issuer_fingerprint')
                sig = key.certify(uid_objs[i], C.SignatureType.Positive_Cert, usage=world.flags_from(step['usage']),
                                  hashes=[C.HashAlgorithm.SHA256], ciphers=[C.SymmetricKeyAlgorithm.AES256], primary=(i == 0), **extra)
                uid_objs[i] |= sig
            except Exception as e:
                ctx.event(step['id'], 'recertify', 'raised', type(e).__name__)
                continue
            m.uid_flags[i].append((rank(), step['usage']))
            if set(before) != set(step['usage']):
                ctx.probe('recertify_changed_capability')
            protected_copy = None
            continue
        # ---- an operation on a key form
        form = step['form']
        ctx.probe('form_' + form)
        if form == 'locked' and step.get('mixed_protection'):
            # a locked key one of whose components is not passphrase-protected (a signing subkey added inside an unlock scope):
            # the key is locked all the same, private operations refuse
            obj = pgpy.PGPKey.from_blob(bytes(key))[0]
            obj.protect(passphrase, C.SymmetricKeyAlgorithm.AES128, C.HashAlgorithm.SHA256)
            try:
                with obj.unlock(passphrase):
                    obj.add_subkey(world.new_key('ed25519', 'c16.mixed.' + step['id']), usage={C.KeyFlags.Sign})
                ctx.probe('locked_key_with_unprotected_subkey')
            except Exception as e:
                ctx.event(step['id'], 'mixed-setup-raised', type(e).__name__)
        elif form in ('locked', 'unlocked'):
            if protected_copy is None:
                protected_copy = pgpy.PGPKey.from_blob(bytes(key))[0]
                protected_copy.protect(passphrase, C.SymmetricKeyAlgorithm.AES128, C.HashAlgorithm.SHA256)
            obj = protected_copy
        elif form == 'public':
            obj = pgpy.PGPKey.from_blob(bytes(key.pubkey))[0]
        elif form == 'copy':
            obj = copy.copy(key)
        else:
            obj = key
        _operate(pgpy, ctx, m, cfg, key, obj, form, passphrase, step, shapes)
        ctx.event(step['id'], op, form, ctx.oracle_evals, sorted(ctx.probes.items()))
    if shapes:
        ctx.mark_nontrivial(';'.join(sorted(shapes)))


def _add_foreign_bindings(keybytes, flags, created, run_seed, label):
    """after every subkey's own signatures: one more 0x18 binding, made by an unrelated key over (that key, this subkey)"""
    from ..ref.wire import encode_packet
    from .c05 import make_ref_key
    mb, malg, msec = make_ref_key('ed25519', 1_500_000_000, b'', run_seed, label='c16mallory' + label)
    mpub = rkeys.parse_pub(mb)
    pk = split_packets(keybytes)
    out = bytearray()
    pending = None
    for i, p in enumerate(pk):
        if p.tag in (7, 14) or (pending is not None and p.tag != 2):
            if pending is not None:
                out += pending
                pending = None
        if p.tag in (7, 14):
            spub = rkeys.parse_pub(p.body)
            h = rsigs.sp_created(created) + rsigs.sp_keyflags(flags) + rsigs.sp_issuer_fpr(mpub.fingerprint)
            pending = encode_packet(2, rsigs.sign(0x18, mpub, msec, 8, h, rsigs.sp_issuer(mpub.keyid), rsigs.subject_subkey(mpub, spub)))
        out += p.raw
    if pending is not None:
        out += pending
    return bytes(out)


def _add_unhashed_flags(keybytes, flags):
    from ..ref.wire import encode_packet, encode_subpacket
    out = bytearray()
    for p in split_packets(keybytes):
        b = p.body
        if p.tag == 2 and b[0] == 4 and b[1] in (0x10, 0x11, 0x12, 0x13, 0x18, 0x1F):
            hl = int.from_bytes(b[4:6], 'big')
            ul = int.from_bytes(b[6 + hl:8 + hl], 'big')
            un = b[8 + hl:8 + hl + ul] + encode_subpacket(27, bytes([flags]))
            b = b[:6 + hl] + len(un).to_bytes(2, 'big') + un + b[8 + hl + ul:]
            out += encode_packet(2, b)
        else:
            out += p.raw
    return bytes(out)


def _allowed(m, cfg, need, uid_index):
    """indices: -1 primary, j subkey"""
    out = []
    i = uid_index if uid_index is not None else 0
    pf = set('C') | set(Model.latest(m.uid_flags[i]))
    if pf & set(need):
        out.append(-1)
    for j in sorted(m.sub_flags):
        if set(Model.latest(m.sub_flags[j])) & set(need):
            out.append(j)
    return out


def _operate(pgpy, ctx, m, cfg, key, obj, form, passphrase, step, shapes):
    C = pgpy.constants
    op = step['op']
    user = step.get('user')
    if user is not None and user >= len(cfg['uids']):
        user = None
    # when no identity is named PGPy consults "the first" identity; identities are only unambiguous here when
    # there is one, or when the first one is marked primary (it sorts first) - which the builder arranges
    kw = {}
    if user is not None:
        kw['user'] = cfg['uids'][user]['name']
        ctx.probe('user_selected_identity')
    obj._require_usage_flags = bool(step.get('enforce', True))
    tkpub = bridge.ref_tkey(bytes(key.pubkey))
    comps = {-1: tkpub.pub}
    for j, c in enumerate(tkpub.subkeys):
        comps[j] = c.key
    by_keyid = {v.keyid: k for k, v in comps.items()}
    need = NEED[op]
    msg = pgpy.PGPMessage.new(b'usage policy', compression=C.CompressionAlgorithm.Uncompressed)
    try:
        if op in ('sign', 'certify'):
            allowed = _allowed(m, cfg, need, user)
            # an algorithm that cannot perform the operation never carries the flag in these layouts
            ctxmgr = obj.unlock(passphrase) if form == 'unlocked' else _null()
            raised = None
            sig = None
            try:
                with ctxmgr:
                    if op == 'sign':
                        sig = obj.sign('usage policy', **kw)
                    else:
                        sig = obj.certify(obj.userids[user or 0], C.SignatureType.Generic_Cert, **({} if user is None else {}))
            except Exception as e:
                raised = e
            ctx.checked()
            if form in ('public', 'locked'):
                if raised is None:
                    ctx.viol('C16:private-op-on-%s' % form, '%s() on a %s key did not refuse' % (op, form))
                return
            shapes.add('%s/%s/%s/%s' % (op, form, 'enf' if step.get('enforce', True) else 'noenf',
                                        'none' if not allowed else 'primary' if allowed[0] == -1 else 'sub'))
            if not allowed:
                if step.get('enforce', True):
                    ctx.probe('nobody_allowed_enforced')
                    if raised is None:
                        ctx.viol('C16:no-capable-component-but-%s' % op, '%s() succeeded although no component has the capability and enforcement is on' % op)
                else:
                    ctx.probe('nobody_allowed_not_enforced')
                    if sig is not None:
                        _names_the_signer(ctx, sig, comps, by_keyid, op)
                return
            if raised is not None:
                ctx.viol('C16:capable-component-refused:%s:%s' % (op, type(raised).__name__),
                         '%s() raised (%s) although component(s) %s have the capability' % (op, raised, allowed))
            used = _names_the_signer(ctx, sig, comps, by_keyid, op)
            if used is not None and used not in allowed:
                ctx.viol('C16:used-component-lacks-capability:%s' % op,
                         '%s() used %s, whose most recent self-signature does not grant the capability (allowed: %s, enforcement %s)'
                         % (op, 'the primary key' if used == -1 else 'subkey %d' % used, allowed, 'on' if step.get('enforce', True) else 'off'))
            ctx.probe('primary_used' if used == -1 else 'subkey_used')
            if len([a for a in allowed if a >= 0]) >= 2:
                ctx.probe('two_capable_subkeys')
            return
        if op in ('encrypt', 'decrypt'):
            allowed = _allowed(m, cfg, 'ET', user)
            allowed = [a for a in allowed if comps[a].alg in (rkeys.ECDH, rkeys.RSA_ES)]
            if op == 'decrypt' and form in ('unprotected', 'unlocked', 'copy') and step.get('stored') is not None and getattr(m, 'mailbox', None):
                # a message encrypted earlier in the history, to whichever component was allowed then: the flags may have
                # changed since, the addressed component is still the one that opens it
                sbytes, sused = m.mailbox[step['stored'] % len(m.mailbox)]
                ctx.checked()
                ctx.probe('decrypt_stored_message')
                if sused is not None and sused not in allowed:
                    ctx.probe('decrypt_stored_after_capability_lost')
                try:
                    with (obj.unlock(passphrase) if form == 'unlocked' else _null()):
                        sdec = obj.decrypt(pgpy.PGPMessage.from_blob(sbytes))
                    sgot = sdec.message
                except Exception as e:
                    ctx.viol('C16:addressed-component-cannot-decrypt:stored:%s' % type(e).__name__,
                             'the key cannot decrypt an earlier message addressed to its %s: %s' % ('primary' if sused == -1 else 'subkey', e))
                    sgot = None
                if sgot is not None and (sgot.encode() if isinstance(sgot, str) else bytes(sgot)) != b'usage policy':
                    ctx.viol('C16:decrypt-wrong-content', 'decryption of an earlier message returns other content')
            if op == 'encrypt' and form != 'public':
                ctx.checked()
                try:
                    obj.encrypt(msg, cipher=C.SymmetricKeyAlgorithm.AES128, **kw)
                except Exception:
                    ctx.probe('encrypt_on_private_refused')
                    return
                ctx.viol('C16:encrypt-on-private-key', 'encrypt() on a private key (%s) did not refuse' % form)
                return
            pub = pgpy.PGPKey.from_blob(bytes(key.pubkey))[0]
            pub._require_usage_flags = bool(step.get('enforce', True))
            raised = None
            enc = None
            co_ids = set()
            try:
                if step.get('co'):
                    # the message goes to a second party as well, whose encryption component is of the same algorithm and whose
                    # session-key packet comes first: every recipient opens it through the packet that names its own component
                    co = _co_recipient(pgpy, bool(allowed) and comps[allowed[0]].alg == rkeys.RSA_ES, m)
                    co_ids = {bytes.fromhex(str(x.fingerprint))[-8:] for x in [co] + list(co.subkeys.values())}
                    sk = C.SymmetricKeyAlgorithm.AES128.gen_key()
                    first = co.pubkey.encrypt(msg, cipher=C.SymmetricKeyAlgorithm.AES128, sessionkey=sk)
                    enc = pub.encrypt(first, cipher=C.SymmetricKeyAlgorithm.AES128, sessionkey=sk, **kw)
                    ctx.probe('second_recipient_same_algorithm_first')
                else:
                    enc = pub.encrypt(msg, cipher=C.SymmetricKeyAlgorithm.AES128, **kw)
            except Exception as e:
                raised = e
            ctx.checked()
            shapes.add('%s/%s/%s/%s' % (op, form, 'enf' if step.get('enforce', True) else 'noenf',
                                        'none' if not allowed else 'primary' if allowed[0] == -1 else 'sub'))
            if not allowed:
                if step.get('enforce', True):
                    ctx.probe('nobody_allowed_enforced')
                    if raised is None:
                        ctx.viol('C16:no-capable-component-but-encrypt', 'encrypt() succeeded although no component may encrypt and enforcement is on')
                    return
                ctx.probe('nobody_allowed_not_enforced')
                if enc is None or op != 'decrypt':
                    return
            elif raised is not None:
                ctx.viol('C16:capable-component-refused:encrypt:%s' % type(raised).__name__,
                         'encrypt() raised (%s) although component(s) %s may encrypt' % (raised, allowed))
            used = None
            for p in split_packets(bytes(enc)):
                if p.tag == 1:
                    pk = renc.parse_pkesk(p.body)
                    if pk.keyid in co_ids:
                        continue
                    used = by_keyid.get(pk.keyid)
                    if used is None:
                        ctx.viol('C16:recipient-id-unknown', 'the session-key packet names a key id that is no component of the key')
            if used is not None and enc is not None:
                if not hasattr(m, 'mailbox'):
                    m.mailbox = []
                m.mailbox.append((bytes(enc), used))
            if used is not None and allowed and used not in allowed:
                ctx.viol('C16:used-component-lacks-capability:encrypt',
                         'encrypt() used %s, whose most recent self-signature does not grant an encryption capability (allowed: %s, enforcement %s)'
                         % ('the primary key' if used == -1 else 'subkey %d' % used, allowed, 'on' if step.get('enforce', True) else 'off'))
            ctx.probe('primary_used' if used == -1 else 'subkey_used')
            if op == 'decrypt':
                ctxmgr = obj.unlock(passphrase) if form == 'unlocked' else _null()
                draised = None
                dec = None
                try:
                    with ctxmgr:
                        dec = obj.decrypt(pgpy.PGPMessage.from_blob(bytes(enc)))
                except Exception as e:
                    draised = e
                ctx.checked()
                if form in ('public', 'locked'):
                    if draised is None and dec is not None and not dec.is_encrypted:
                        ctx.viol('C16:private-op-on-%s' % form, 'decrypt() on a %s key did not refuse' % form)
                    return
                if draised is not None:
                    ctx.viol('C16:addressed-component-cannot-decrypt:%s' % type(draised).__name__,
                             'the key cannot decrypt a message addressed to its %s: %s' % ('primary' if used == -1 else 'subkey', draised))
                got = dec.message
                if (got.encode() if isinstance(got, str) else bytes(got)) != b'usage policy':
                    ctx.viol('C16:decrypt-wrong-content', 'decryption by the addressed component returns other content')
                if used is not None and used >= 0:
                    ctx.probe('decrypt_by_subkey')
    finally:
        obj._require_usage_flags = True


def _co_recipient(pgpy, rsa, m):
    C = pgpy.constants
    _CO = m.__dict__.setdefault('co_recipients', {})
    if rsa not in _CO:
        if rsa:
            k = world.new_key('rsa2048', 'c16.co.rsa')
            k.add_uid(pgpy.PGPUID.new('Co Recipient'), usage={C.KeyFlags.Certify, C.KeyFlags.Sign, C.KeyFlags.EncryptCommunications},
                      hashes=[C.HashAlgorithm.SHA256])
        else:
            k = world.new_key('ed25519', 'c16.co.primary')
            k.add_uid(pgpy.PGPUID.new('Co Recipient'), usage={C.KeyFlags.Certify, C.KeyFlags.Sign}, hashes=[C.HashAlgorithm.SHA256])
            k.add_subkey(world.new_key('cv25519', 'c16.co.sub'), usage={C.KeyFlags.EncryptCommunications})
        _CO[rsa] = k
    return _CO[rsa]


class _null(object):
    def __enter__(self):
        return self

    def __exit__(self, *a):
        return False


def _names_the_signer(ctx, sig, comps, by_keyid, op):
    """the Issuer / Issuer Fingerprint of the output name the component that really made it"""
    rs = bridge.ref_sig(bytes(sig))
    used = by_keyid.get(rs.issuer)
    ctx.checked()
    if used is None:
        ctx.viol('C16:issuer-id-unknown', 'the signature names key id %s which is no component of the key' % (rs.issuer.hex() if rs.issuer else None))
        return None
    if rs.issuer_fpr is not None and rs.issuer_fpr != comps[used].fingerprint:
        ctx.viol('C16:issuer-fingerprint-mismatch', 'Issuer and Issuer Fingerprint name different components')
    return used


def _no_identity(pgpy, key, ctx):
    C = pgpy.constants
    for name, fn in (('sign', lambda: key.sign('x')), ('revoke', lambda: key.revoke(key)),
                     ('decrypt', lambda: key.decrypt(pgpy.PGPMessage.new('x').encrypt('pw')))):
        ctx.checked()
        try:
            fn()
        except Exception:
            continue
        ctx.viol('C16:identityless-key-acts:%s' % name, '%s() on a key without any identity did not refuse' % name)
    # operations that need no capability flag are refused as well
    other = world.new_key('ed25519', 'c16.noid.other')
    newsub = world.new_key('cv25519', 'c16.noid.sub')
    for name, fn in (('add_subkey', lambda: key.add_subkey(newsub, usage={C.KeyFlags.EncryptCommunications}, hash=C.HashAlgorithm.SHA256)),
                     ('revoker', lambda: key.revoker(other, hash=C.HashAlgorithm.SHA256))):
        ctx.checked()
        try:
            fn()
        except Exception:
            continue
        ctx.viol('C16:identityless-key-acts:%s' % name, '%s() on a key without any identity did not refuse' % name)
    uid = pgpy.PGPUID.new('First Identity')
    try:
        key.add_uid(uid, usage={C.KeyFlags.Sign, C.KeyFlags.Certify})
    except Exception as e:
        ctx.viol('C16:first-selfcert-refused', 'a key without identities refuses its first self-certification: %s' % e)
        return
    # ... and a key that has lost its last identity is in the same position, subkeys or not
    try:
        key.add_subkey(newsub, usage={C.KeyFlags.EncryptCommunications})
        enc = key.pubkey.encrypt(pgpy.PGPMessage.new(b'usage policy', compression=C.CompressionAlgorithm.Uncompressed), cipher=C.SymmetricKeyAlgorithm.AES128)
        key.del_uid('First Identity')
    except Exception as e:
        ctx.event('noid', 'setup-raised', type(e).__name__)
        return
    if len(key.userids) == 0:
        ctx.probe('last_identity_removed')
        for name, fn in (('decrypt', lambda: key.decrypt(enc)), ('bind', lambda: key.bind(newsub, hash=C.HashAlgorithm.SHA256)),
                         ('sign', lambda: key.sign('x'))):
            ctx.checked()
            try:
                r = fn()
            except Exception:
                continue
            ctx.viol('C16:identityless-key-acts:%s' % name, '%s() on a key whose last identity was removed did not refuse' % name)
