"""C20 - messages are well-formed OpenPGP compositions and keep content and metadata.

Message-composition histories: PGPMessage.new over the content / format / file
name / time / compression space (simulated files for name and mtime, the
for-your-eyes-only marker, non-ASCII and 255-octet names), 0-4 signers of
differing algorithms added in any order at equal, differing or explicitly earlier
simulated times, exports in the middle of the history, sign-then-encrypt and
encrypt-then-attach, export binary or armored -> re-framing channel -> import; and
foreign messages from the reference peer in old-format and partial-length
encodings.  The reference peer's RFC 4880 11.3 grammar recogniser judges every
export."""
import copy
import datetime

from .. import bridge, encworld, seams, world
from ..ref import armor as rarmor, enc as renc, keys as rkeys, sigs as rsigs
from ..ref.wire import WireError, encode_packet, split_packets
from .c02 import reframe_bytes
from .c05 import make_ref_key

ID = 'C20'
RULE = ('cases are composition histories of 3-9 steps (new message, add signer with a drawn creation-time offset, tick, export, '
        'hop through a re-framing channel, encrypt, reference-peer message); a run is non-trivial when a message with at least '
        'two signers, or a compressed signed message, or a hop was judged by the grammar recogniser; distinct = distinct (step '
        'kinds, signer counts, compression, body class) tuples')
TIERS = {'quick': {'runs': 4000, 'budget_s': 80}, 'thorough': {'runs': 200000, 'budget_s': 1500}}
PROBES = ('copy_exported', 'signers_1', 'signers_2', 'signers_3plus', 'signer_created_earlier', 'signers_same_second', 'export_midway', 'compressed_signed',
          'encrypted_then_signed', 'signed_then_encrypted', 'hop_armor', 'hop_reframed', 'hop_marker', 'from_file', 'sensitive', 'non_ascii_filename',
          'long_filename', 'ref_old_format', 'ref_partial', 'ref_signed_onepass', 'body_big', 'format_text', 'format_utf8')
FILENAMES = ['note.txt', 'a', 'data.bin', 'résumé.txt', 'файл.txt', 'n' * 255, 'spaces in name.txt']


def generate(rng, tier):
    keys = {}
    for i in range(3):
        keys['k%d' % i] = {'alg': rng.choice(['ed25519', 'ed25519', 'p256', 'p384', 'rsa2048' if rng.random() < 0.1 else 'ed25519',
                                                'dsa2048' if rng.random() < 0.08 else 'secp256k1']),
                           'uids': [['Signer %d' % i, '', 's%d@example.org' % i]], 'usage': 'CS',
                           'subkeys': [{'alg': 'cv25519', 'usage': 'E'}] if i == 0 else [], 'created_us': 1_500_000_000_000_000}
    spec = encworld.gen_message_spec(rng, big_ok=(tier == 'thorough' and rng.random() < 0.1))
    spec['filename'] = rng.choice(FILENAMES)
    spec['bom'] = rng.random() < 0.15
    steps = [{'id': 's0', 'op': 'new', 'msg': spec}]
    n = rng.randint(2, 8 if tier == 'thorough' else 6)
    for i in range(1, n + 1):
        sid = 's%d' % i
        r = rng.random()
        if r < 0.4:
            steps.append({'id': sid, 'op': 'add_signer', 'key': 'k%d' % rng.randrange(3), 'hash': rng.choice([8, 8, 10, 2, 9]),
                          'created_offset_s': rng.choice([None, None, None, 0, -1, -3600, 5, -86400])})
        elif r < 0.52:
            steps.append({'id': sid, 'op': 'tick', 'delta_us': rng.choice([0, 400_000, 1_000_000, 61_000_000])})
        elif r < 0.7:
            steps.append({'id': sid, 'op': 'export'})
        elif r < 0.88:
            steps.append({'id': sid, 'op': 'hop', 'armor': rng.random() < 0.4, 'perturb': rng.sample(['reframe_old', 'reframe_5', 'marker'], rng.choice([0, 1, 1, 2]))})
        elif r < 0.95:
            steps.append({'id': sid, 'op': 'encrypt', 'how': rng.choice(['key', 'pass']), 'then_sign': rng.random() < 0.5})
        else:
            steps.append({'id': sid, 'op': 'ref_message', 'framing': rng.choice(['old', 'partial', 'new']), 'signed': rng.random() < 0.6,
                          'compression': rng.choice([0, 1, 2, 3]), 'size': rng.choice([0, 10, 700, 3000])})
    start_us = 1_600_000_000_000_000 + rng.choice([0, 300_000])
    if rng.random() < 0.04:
        # block-aligned compressor input: a literal packet (six header octets, format, empty name, time) of exactly k * 65536 octets
        spec.update(body='binary', file=False, sensitive=False, size=rng.choice([1, 1, 2]) * 65536 - 12, bom=False)
    return {'config': {'keys': keys, 'start_us': start_us}, 'steps': steps}


def simplify(case):
    for i, s in enumerate(case['steps']):
        if s['op'] == 'new':
            m = s['msg']
            for f, v in (('compression', 0), ('file', False), ('sensitive', False), ('format', None), ('filename', 'a'), ('size', 3)):
                if m.get(f) != v and not (f == 'size' and m['size'] <= 3):
                    c = copy.deepcopy(case)
                    c['steps'][i]['msg'][f] = v
                    if f == 'size' and m['body'] == 'big':
                        c['steps'][i]['msg']['body'] = 'binary'
                    yield c
        if s.get('perturb'):
            c = copy.deepcopy(case)
            c['steps'][i]['perturb'] = []
            yield c
        if s.get('created_offset_s') is not None:
            c = copy.deepcopy(case)
            c['steps'][i]['created_offset_s'] = None
            yield c
    for k in sorted(case['config']['keys']):
        if case['config']['keys'][k]['alg'] != 'ed25519':
            c = copy.deepcopy(case)
            c['config']['keys'][k]['alg'] = 'ed25519'
            yield c


def grammar_check(ctx, what, data, expect_sigs=None, sigp='C20'):
    """RFC 4880 11.3 + the one-pass bookkeeping of 5.4.  Returns the MsgShape."""
    ctx.checked()
    sh = renc.recognise(data)
    if sh.errors:
        kind = 'mdc-outside-container' if any('tags [19' in e or 'tag 19' in e for e in sh.errors) else \
            'misframed' if any(e.startswith('framing') for e in sh.errors) else 'not-derivable'
        ctx.viol('%s:grammar:%s' % (sigp, kind), '%s: export is not derivable from the RFC 4880 11.3 grammar: %s' % (what, sh.errors[:2]))
    if sh.kind == 'encrypted':
        return sh
    n = len(sh.sigs)
    if sh.prefix_sigs:
        ctx.viol('%s:signature-before-literal' % sigp, '%s: a signature packet precedes the literal data without one-pass packets' % what)
    if len(sh.ops) != n:
        ctx.viol('%s:onepass-count' % sigp, '%s: %d one-pass packets for %d signatures' % (what, len(sh.ops), n))
    for i, o in enumerate(sh.ops):
        sg = rsigs.parse_sig(sh.sigs[n - 1 - i])
        if (o.type, o.halg, o.pkalg) != (sg.type, sg.halg, sg.pkalg) or o.keyid != sg.issuer:
            ctx.viol('%s:onepass-mismatch' % sigp,
                     '%s: one-pass packet %d does not describe the signature it brackets (type/hash/algorithm/issuer, reverse order expected)' % (what, i))
        want_last = 1 if i == n - 1 else 0
        if (1 if o.last else 0) != want_last:
            ctx.viol('%s:onepass-last-flag' % sigp, '%s: one-pass flags are %s for %d signatures; only the last may be 1'
                     % (what, [x.last for x in sh.ops], n))
    if expect_sigs is not None and n != expect_sigs:
        ctx.viol('%s:signature-count' % sigp, '%s: %d signatures exported, the message holds %d' % (what, n, expect_sigs))
    if sh.literal is None:
        ctx.viol('%s:no-literal' % sigp, '%s: no literal data packet' % what)
    if getattr(sh, 'signed_over_compressed', False):
        ctx.viol('%s:signatures-outside-compression' % sigp, '%s: signatures are outside the compressed packet' % what)
    return sh


def execute(case, ctx):
    import pgpy
    C = pgpy.constants
    cfg = case['config']
    clock = seams.clock()
    clock.set(cfg['start_us'])
    keys = {n: world.build_key(cfg['keys'][n], 'c20' + n) for n in sorted(cfg['keys'])}
    clock.set(cfg['start_us'])
    msg = None
    spec = None
    content = None
    nsig = 0
    last_sig_sec = None
    shapes = []
    interesting = False
    encrypted = None
    for st in case['steps']:
        ctx.step = st['id']
        ctx.steps_done += 1
        seams.rnd().set_step(st['id'])
        op = st['op']
        ctx.event(st['id'], op, nsig, encrypted is not None, ctx.oracle_evals)
        if op == 'tick':
            clock.advance(st['delta_us'])
            continue
        if op == 'new':
            spec = st['msg']
            try:
                msg, content = encworld.make_message(pgpy, spec)
            except Exception as e:
                ctx.viol('C20:new-raises:%s' % type(e).__name__, 'PGPMessage.new raises for a legal content/metadata combination: %s' % e)
            nsig = 0
            encrypted = None
            if spec.get('file'):
                ctx.probe('from_file')
            if spec.get('sensitive'):
                ctx.probe('sensitive')
            if any(ord(c) > 127 for c in spec['filename']) and spec.get('file') and not spec.get('sensitive'):
                ctx.probe('non_ascii_filename')
            if len(spec['filename']) == 255 and spec.get('file'):
                ctx.probe('long_filename')
            if spec['body'] == 'big':
                ctx.probe('body_big')
            _check_new(ctx, pgpy, msg, spec, content)
            shapes.append('new:%s:%d' % (spec['body'], spec['compression']))
            continue
        if msg is None:
            continue
        if op == 'add_signer':
            if encrypted is not None:
                continue
            k = keys[st['key']]
            kw = {'hash': C.HashAlgorithm(st['hash'])}
            if st.get('created_offset_s') is not None:
                kw['created'] = clock.dt().replace(microsecond=0) + datetime.timedelta(seconds=st['created_offset_s'])
                if st['created_offset_s'] < 0:
                    ctx.probe('signer_created_earlier')
            try:
                msg |= k.sign(msg, **kw)
            except Exception as e:
                ctx.event(st['id'], 'add_signer', 'raised', type(e).__name__)
                continue
            nsig += 1
            sec = clock.us // 1_000_000
            if last_sig_sec == sec and st.get('created_offset_s') is None:
                ctx.probe('signers_same_second')
            last_sig_sec = sec
            ctx.probe('signers_1' if nsig == 1 else 'signers_2' if nsig == 2 else 'signers_3plus')
            _export_check(ctx, pgpy, msg, spec, content, nsig, 'after adding signer %d' % nsig)
            if nsig >= 2 or (nsig and spec['compression']):
                interesting = True
            shapes.append('sig%d' % nsig)
            continue
        if op == 'export':
            ctx.probe('export_midway')
            if encrypted is None:
                _export_check(ctx, pgpy, msg, spec, content, nsig, 'export')
            continue
        if op == 'hop':
            if encrypted is not None:
                continue
            raw = bytes(msg)
            wire = raw
            try:
                split_packets(raw)
            except WireError as e:
                ctx.viol('C20:export-misframed', 'the export of the message is not a sequence of whole packets: %s' % e)
            for k in st.get('perturb', []):
                if k in ('reframe_old', 'reframe_5'):
                    wire = reframe_bytes(wire, k)
                    ctx.probe('hop_reframed')
                    ctx.perturb('reframe')
                elif k == 'marker':
                    wire = encode_packet(10, b'PGP') + wire
                    ctx.probe('hop_marker')
                    ctx.perturb('marker')
            if st.get('armor'):
                wire = str(msg) if wire == raw else rarmor.enarmor('MESSAGE', wire)
                ctx.probe('hop_armor')
                ctx.perturb('armor')
            ctx.checked()
            try:
                m2 = pgpy.PGPMessage.from_blob(wire)
            except Exception as e:
                ctx.viol('C20:own-export-unreadable:%s' % type(e).__name__, 'PGPy cannot re-import its own message export (%s): %s' % (st.get('perturb'), e))
                continue
            _same_message(ctx, pgpy, msg, m2, raw, 'after the hop')
            _export_check(ctx, pgpy, m2, spec, content, nsig, 're-export after the hop')
            msg = m2
            interesting = True
            shapes.append('hop')
            continue
        if op == 'encrypt':
            if encrypted is not None:
                continue
            try:
                if st['how'] == 'key':
                    enc = keys['k0'].pubkey.encrypt(msg, cipher=C.SymmetricKeyAlgorithm.AES128)
                else:
                    enc = msg.encrypt('c20 passphrase', cipher=C.SymmetricKeyAlgorithm.AES128)
            except Exception as e:
                ctx.event(st['id'], 'encrypt', 'raised', type(e).__name__)
                continue
            if nsig:
                ctx.probe('signed_then_encrypted')
            if st.get('then_sign'):
                try:
                    enc |= keys['k1'].sign(enc)
                    ctx.probe('encrypted_then_signed')
                except Exception as e:
                    ctx.event(st['id'], 'sign-encrypted', 'raised', type(e).__name__)
            eb = bytes(enc)
            sh = grammar_check(ctx, 'encrypted message', b''.join(p.raw for p in split_packets(eb) if p.tag != 2) if st.get('then_sign') else eb)
            if sh.kind != 'encrypted' or sh.container is None or sh.container.tag != 18:
                ctx.viol('C20:encrypted-shape', 'an encrypted message is not ESK packets followed by one SEIPD container')
            if st.get('then_sign'):
                tags = [p.tag for p in split_packets(eb)]
                if tags[0] != 2:
                    ctx.viol('C20:encrypted-signature-position', 'a signature attached to an encrypted message is not in front of it: tags %s' % tags)
            # decrypt gives the original composition back
            try:
                dec = keys['k0'].decrypt(pgpy.PGPMessage.from_blob(eb)) if st['how'] == 'key' else pgpy.PGPMessage.from_blob(eb).decrypt('c20 passphrase')
            except Exception as e:
                ctx.viol('C20:cannot-decrypt-own:%s' % type(e).__name__, 'cannot decrypt an own encrypted message: %s' % e)
                continue
            _same_message(ctx, pgpy, msg, dec, bytes(msg), 'after decryption')
            grammar_check(ctx, 're-export of the decrypted message', bytes(dec), expect_sigs=nsig)
            shapes.append('enc')
            continue
        if op == 'ref_message':
            _ref_message(ctx, pgpy, keys, st, case)
            shapes.append('ref:' + st['framing'])
            interesting = True
    if interesting:
        ctx.mark_nontrivial('|'.join(shapes))


def bridge_literal_format(msg):
    try:
        sh = renc.recognise(encworld.strip_mdc(bytes(msg)))
        return sh.literal.fmt if sh.literal is not None else None
    except Exception:
        return None


def _want_filename(spec):
    if spec.get('sensitive'):
        return b'_CONSOLE'
    if spec.get('file'):
        return spec['filename'].encode('utf-8')
    return b''


def _check_new(ctx, pgpy, msg, spec, content):
    ctx.checked()
    if spec['format'] in ('t', 'u') or (spec['format'] is None and spec['body'] in ('text', 'utf8', 'empty')):
        ctx.probe('format_text' if msg._message.format == 't' else 'format_utf8' if msg._message.format == 'u' else 'format_text')
    got = msg.message
    # "octet-for-octet under the message's character encoding": PGPy renders format 't' as latin-1, 'u' as UTF-8
    fmt = bridge_literal_format(msg)
    gb = got.encode('latin-1' if fmt == b't' else 'utf-8') if isinstance(got, str) else bytes(got)
    if gb != content:
        ctx.viol('C20:content-changed-by-new', 'PGPMessage.new changed the content octets (%d -> %d)' % (len(content), len(gb)))
    if msg.is_compressed != (spec['compression'] != 0):
        ctx.viol('C20:compression-flag', 'is_compressed=%s for compression algorithm %d' % (msg.is_compressed, spec['compression']))
    if msg.is_sensitive != bool(spec.get('sensitive')):
        ctx.viol('C20:sensitive-flag', 'is_sensitive=%s' % msg.is_sensitive)


def _export_check(ctx, pgpy, msg, spec, content, nsig, what):
    try:
        raw = bytes(msg)
    except Exception as e:
        ctx.viol('C20:export-raises:%s' % type(e).__name__, '%s: bytes(message) raises: %s (filename %r)' % (what, e, spec['filename'][:20]))
        return
    # a copy of the message is the same message
    ctx.checked()
    try:
        craw = bytes(copy.copy(msg))
    except Exception as e:
        craw = None
        ctx.viol('C20:copy-export-raises:%s' % type(e).__name__, '%s: bytes(copy.copy(message)) raises: %s' % (what, e))
    if craw is not None and craw != raw:
        ctx.viol('C20:copy-export-differs', '%s: a copy of the message exports other octets (%d vs %d)' % (what, len(craw), len(raw)))
    ctx.probe('copy_exported')
    sh = grammar_check(ctx, what, raw, expect_sigs=nsig)
    if sh.literal is None:
        return
    if spec['compression'] and nsig:
        ctx.probe('compressed_signed')
    if (sh.kind == 'compressed') != (spec['compression'] != 0):
        ctx.viol('C20:compression-wrapper', '%s: compression algorithm %d but top-level packet kind is %s' % (what, spec['compression'], sh.kind))
    if sh.kind == 'compressed' and sh.compression != spec['compression']:
        ctx.viol('C20:compression-algorithm', '%s: compressed with %s, asked for %d' % (what, sh.compression, spec['compression']))
    if sh.literal.data != content:
        ctx.viol('C20:content-changed-by-export', '%s: literal data octets differ from the content (%d vs %d) under compression %d'
                 % (what, len(sh.literal.data), len(content), spec['compression']))
    want_fn = _want_filename(spec)
    if sh.literal.filename != want_fn:
        ctx.viol('C20:filename-octets:%s' % ('non-ascii' if any(b > 127 for b in want_fn) else 'ascii'),
                 '%s: literal file name octets are %r, expected %r' % (what, sh.literal.filename[:30], want_fn[:30]))
    if spec.get('file') and sh.literal.mtime != spec['mtime']:
        ctx.viol('C20:mtime', '%s: literal time is %d, the file\'s is %d' % (what, sh.literal.mtime, spec['mtime']))
    if not spec.get('file') and sh.literal.mtime != seams.clock().us // 1_000_000 and False:
        pass
    # every inline signature is a valid signature over the literal data (reference peer)
    # (validity is C02's business; here only that each one is attached to this message)


def _same_message(ctx, pgpy, a, b, raw_a, what):
    ctx.checked()
    sa = encworld.shape_of(raw_a, drop_mdc=True)
    try:
        sb = encworld.shape_of(bytes(b), drop_mdc=True)
    except Exception as e:
        ctx.viol('C20:reexport-raises:%s' % type(e).__name__, '%s: bytes() of the imported message raises: %s' % (what, e))
        return
    for f in ('data', 'fmt', 'filename', 'mtime', 'compression', 'sigs'):
        if sa[f] != sb[f]:
            x, y = sa[f], sb[f]
            if f in ('data',):
                x, y = len(x or b''), len(y or b'')
            if f == 'sigs':
                x, y = len(x), len(y)
            ctx.viol('C20:roundtrip:%s' % f, '%s: %s differs (%r -> %r)' % (what, f, x, y))
    if a.message != b.message:
        ctx.viol('C20:roundtrip:message-attribute', '%s: PGPMessage.message differs' % what)
    if a.filename != b.filename or a.is_compressed != b.is_compressed or a.is_sensitive != b.is_sensitive:
        ctx.viol('C20:roundtrip:attributes', '%s: filename / is_compressed / is_sensitive differ (%r/%r)' % (what, a.filename[:20], b.filename[:20]))
    if len(a.signatures) != len(b.signatures):
        ctx.viol('C20:roundtrip:signature-count', '%s: %d signatures became %d' % (what, len(a.signatures), len(b.signatures)))


def _ref_message(ctx, pgpy, keys, st, case):
    data = seams.derive(case['run_seed'], st['id'], 'refmsg', st['size'])
    fmt = 'old' if st['framing'] == 'old' else 'new'
    lit = renc.build_literal(b'b', b'foreign.bin', 1_400_000_000, data)
    chunks = [512] if st['framing'] == 'partial' and len(lit) > 600 else None
    if chunks:
        ctx.probe('ref_partial')
    if st['framing'] == 'old':
        ctx.probe('ref_old_format')
    inner = bytearray()
    body, alg, secret = make_ref_key('ed25519', 1_500_000_000, b'', case['run_seed'], label='c20ref')
    pub = rkeys.parse_pub(body)
    if st.get('signed'):
        ctx.probe('ref_signed_onepass')
        inner += encode_packet(4, renc.build_ops(0x00, 8, alg, pub.keyid, 1), fmt)
    inner += encode_packet(11, lit, fmt, chunks=chunks)
    if st.get('signed'):
        hashed = rsigs.sp_created(1_590_000_000) + rsigs.sp_issuer_fpr(pub.fingerprint)
        inner += encode_packet(2, rsigs.sign(0x00, pub, secret, 8, hashed, rsigs.sp_issuer(pub.keyid), data), fmt)
    wire = bytes(inner)
    if st['compression']:
        wire = encode_packet(8, renc.compress(st['compression'], wire), fmt)
    ctx.checked()
    try:
        m = pgpy.PGPMessage.from_blob(wire)
    except Exception as e:
        ctx.viol('C20:foreign-unreadable:%s:%s' % (st['framing'], type(e).__name__), 'PGPy cannot load a reference-peer message (%s framing, compression %d): %s'
                 % (st['framing'], st['compression'], e))
        return
    got = m.message
    if (got.encode() if isinstance(got, str) else bytes(got)) != data:
        ctx.viol('C20:foreign-content', 'content of a reference-peer message differs after import (%s framing)' % st['framing'])
    if m.filename != 'foreign.bin' or m.is_compressed != bool(st['compression']) or len(m.signatures) != (1 if st.get('signed') else 0):
        ctx.viol('C20:foreign-metadata', 'file name / compression / signature count of a reference-peer message differ after import')
    if st.get('signed'):
        tkb = bridge.build_ref_tkey(body, alg, secret, b'Foreign Author <fa@example.org>', 1_500_000_000)
        k = pgpy.PGPKey.from_blob(tkb)[0]
        try:
            ok = bool(k.verify(m))
        except Exception as e:
            ok = e
        if ok is not True:
            ctx.viol('C20:foreign-signature', 'the inline signature of a reference-peer message does not verify after import: %r' % (ok,))
    sh = grammar_check(ctx, 're-export of a reference-peer message', bytes(m), expect_sigs=1 if st.get('signed') else 0)
    if sh.literal is not None and (sh.literal.data != data or sh.literal.filename != b'foreign.bin' or sh.literal.mtime != 1_400_000_000):
        ctx.viol('C20:foreign-reexport', 're-export of a reference-peer message changed content or metadata')
