"""C14 - transferable keys survive export and import with their structure intact.

Key-management histories (several identities and attributes with self-, third-
party and revocation signatures, direct-key signatures and designated revokers,
subkeys with bindings / re-bindings / revocations, explicit exportable true/false)
under a clock that usually does not advance, then export -> keyring-style /
re-framing channel -> import, copies, coalesced blobs.  The reference peer parses
both exports structurally; the model says which signature packet belongs to which
component and which are exportable."""
import copy

from .. import bridge, keyworld, seams
from ..ref import armor as rarmor, tkey as rtkey
from ..ref.wire import WireError, encode_packet, split_packets

ID = 'C14'
RULE = ('cases are key-management histories of 6-30 steps over 2-3 keys with export/import hops (public/private, binary/armor, '
        'trust packets, re-framing) and copies; a run is non-trivial when a key carrying at least two signatures on one '
        'component made within the same simulated second, or a non-exportable / explicitly exportable certification, or a '
        'revocation, crossed an export/import hop and the structural comparison ran; distinct = distinct step-kind sequences')
TIERS = {"quick": {"runs": 8000, "budget_s": 90}, "thorough": {"runs": 300000, "budget_s": 1500}}
PROBES = ('nonexportable_direct', 'same_second_pair_on_component', 'subsecond_pair_lost_on_wire', 'nonexportable_cert', 'explicit_exportable_true',
          'trust_packets', 'coalesced_blob', 'copy_compared', 'copy_of_respelled_import_compared', 'fixed_point_checked', 'twin_held', 'twin_collected', 'protected_export',
          'uattr', 'revoker', 'hop_private', 'hop_public')
WEIGHTS = {'direct_other': 1.2, 'tick': 2.0, 'export_import': 2.5, 'certify_other': 2.0, 'recertify': 1.5, 'copy_key': 0.8, 'add_uid': 1.2, 'protect': 0.3,
           'derive_pub': 0.3, 'drop_pub': 0.2, 'revoke_subkey_by_other': 0.6}


def generate(rng, tier):
    keys = keyworld.gen_universe(rng)
    knames = sorted(keys)
    n = rng.randint(6, 30 if tier == 'thorough' else 16)
    steps = [keyworld.gen_step(rng, 's%d' % i, knames, WEIGHTS) for i in range(n)]
    return {'config': {'keys': keys, 'final_blob': rng.random() < 0.5, 'start_us': 1_600_000_000_000_000 + rng.choice([0, 400_000])}, 'steps': steps}


def simplify(case):
    for i, s in enumerate(case['steps']):
        if s.get('perturb'):
            c = copy.deepcopy(case)
            c['steps'][i]['perturb'] = []
            yield c
        if s.get('armor'):
            c = copy.deepcopy(case)
            c['steps'][i]['armor'] = False
            yield c
        for f in ('hashes', 'ciphers', 'compression', 'key_expiration_s', 'trust'):
            if s.get(f):
                c = copy.deepcopy(case)
                c['steps'][i][f] = None
                yield c
    for k in sorted(case['config']['keys']):
        if case['config']['keys'][k]['alg'] != 'ed25519':
            c = copy.deepcopy(case)
            c['config']['keys'][k]['alg'] = 'ed25519'
            yield c


def compare_structure(ctx, what, mk, keybytes, sig_prefix='C14'):
    """model vs reference-peer reading of an export"""
    ctx.checked()
    try:
        tk, obs = keyworld.observed_components(keybytes)
    except (WireError, IndexError) as e:
        ctx.viol('%s:export-not-a-transferable-key' % sig_prefix, '%s: the reference peer cannot parse the export as a transferable key: %s' % (what, e))
        return None
    if tk.pub.fingerprint != mk.fp:
        ctx.viol('%s:fingerprint-changed' % sig_prefix, '%s: fingerprint of the export differs from the key\'s' % what)
    exp = keyworld.expected_components(mk)
    for comp in sorted(set(exp) | set(obs), key=repr):
        e = keyworld.norm_packets(exp.get(comp, []))
        o = keyworld.norm_packets(obs.get(comp, [])) if comp in obs else None
        kind = comp if isinstance(comp, str) else comp[0]
        if o is None:
            ctx.viol('%s:component-lost:%s' % (sig_prefix, kind), '%s: a %s component of the key is missing from the export' % (what, kind))
            continue
        if comp not in exp:
            ctx.viol('%s:component-extra:%s' % (sig_prefix, kind), '%s: the export carries a %s component the key should not have (removed identity?)' % (what, kind))
            continue
        if e != o:
            missing = [x for x in e if x not in o]
            extra = [x for x in o if x not in e]
            if missing and extra:
                why = 'moved-or-altered'
            elif missing:
                why = 'lost'
            else:
                why = 'extra'
            ctx.viol('%s:signatures-%s:%s' % (sig_prefix, why, kind),
                     '%s: the %s component exports %d signature packets, the model expects %d (%d missing, %d unexpected)'
                     % (what, kind, len(o), len(e), len(missing), len(extra)))
    return tk


def _respell_unhashed(p):
    b = p.body
    if p.tag != 2 or not b or b[0] != 4 or len(b) < 10:
        return p.raw
    hl = int.from_bytes(b[4:6], 'big')
    uo = 6 + hl
    ul = int.from_bytes(b[uo:uo + 2], 'big')
    area, i, out = b[uo + 2:uo + 2 + ul], 0, bytearray()
    while i < len(area):
        f = area[i]
        if f < 192:
            n, i = f, i + 1
        elif f < 255:
            n, i = ((f - 192) << 8) + area[i + 1] + 192, i + 2
        else:
            n, i = int.from_bytes(area[i + 1:i + 5], 'big'), i + 5
        out += b'\xff' + n.to_bytes(4, 'big') + area[i:i + n]
        i += n
    if i != len(area) or len(out) > 65535:
        return p.raw
    return encode_packet(2, b[:uo] + len(out).to_bytes(2, 'big') + bytes(out) + b[uo + 2 + ul:])


def execute(case, ctx):
    cfg = case['config']

    def before_import(h, name, obj, wire, st):
        mk = h.model[name]
        raw = bytes(obj)
        ctx.probe('hop_public' if obj.is_public else 'hop_private')
        if mk.passphrase is not None and not obj.is_public:
            ctx.probe('protected_export')
        if 'trust' in st.get('perturb', ()):
            ctx.probe('trust_packets')
        compare_structure(ctx, 'export of %s' % name, mk, raw)
        _interesting(ctx, mk)

    def after_import(h, name, old, new, st):
        mk = h.model[name]
        ctx.checked()
        out2 = bytes(new)
        # same structure after the hop (non-exportable ones are gone from the model in keyworld after this hook)
        mk2 = copy.copy(mk)
        compare_structure(ctx, 're-export of the imported %s' % name, _exported_view(mk), out2)
        # every signature still verifies after import: PGPy and the reference peer
        try:
            tk = bridge.ref_tkey(out2)
            res = rtkey.check_self_sigs(tk)
            bad = [r for r in res if not r[2]]
            if bad:
                ctx.viol('C14:selfsig-invalid-after-import', 'after import %d self-signature(s) no longer verify under the reference peer (%s)'
                         % (len(bad), bad[0][3]))
        except WireError as e:
            ctx.viol('C14:export-not-a-transferable-key', 'second export unreadable: %s' % e)
        pub = new if new.is_public else new.pubkey
        try:
            v = pub.verify(new)
            if not v:
                ctx.viol('C14:selfsig-invalid-after-import:pgpy', 'after import PGPy no longer verifies the key\'s own signatures (%d bad)'
                         % len(list(v.bad_signatures)))
        except Exception as e:
            if 'No signatures to verify' not in str(e):
                ctx.viol('C14:verify-raises-after-import:%s' % type(e).__name__, 'PGPKey.verify(key) raises after import: %s' % e)
        # fixed point: a second export -> import -> export gives the same octets
        ctx.probe('fixed_point_checked')
        try:
            third = bytes(h.pgpy.PGPKey.from_blob(out2)[0])
        except Exception as e:
            ctx.viol('C14:own-export-unreadable:%s' % type(e).__name__, 'PGPy cannot re-import its own export: %s' % e)
            return
        if third != out2:
            ctx.viol('C14:not-a-fixed-point', 'export -> import -> export changes the octets (%d vs %d)' % (len(out2), len(third)))

    def on_copy(h, name, old, new):
        ctx.probe('copy_compared')
        ctx.checked()
        if bytes(old) != bytes(new):
            ctx.viol('C14:copy-differs', 'a copy of the key exports other octets than the original')
        # the same key as another writer may spell it: every subpacket of the unhashed areas with a five-octet length (legal, not
        # covered by any signature).  Imported, then copied: the copy exports what the imported key exports.
        try:
            blob = b''.join(_respell_unhashed(p) for p in split_packets(bytes(old)))
            k2 = h.pgpy.PGPKey.from_blob(blob)[0]
            b2 = bytes(k2)
        except Exception:
            return
        ctx.probe('copy_of_respelled_import_compared')
        ctx.checked()
        if bytes(copy.copy(k2)) != b2:
            ctx.viol('C14:copy-differs:respelled-unhashed', 'a copy of a key imported with five-octet subpacket lengths in its unhashed areas exports '
                     'other octets than that key')

    h = keyworld.KeyHistory(cfg['keys'], ctx, {'before_import': before_import, 'after_import': after_import, 'on_copy': on_copy})
    seams.clock().set(cfg.get('start_us', 1_600_000_000_000_000))
    kinds = []
    for step in case['steps']:
        ctx.step = step['id']
        ctx.steps_done += 1
        seams.rnd().set_step(step['id'])
        out = h.apply(step)
        kinds.append(step['op'])
        ctx.event(step['id'], step['op'], step.get('key'), out)
    # final: every key's export agrees with the model; several keys in one blob are separated correctly
    ctx.step = 'final'
    names = sorted(h.priv)
    for n in names:
        compare_structure(ctx, 'final export of %s' % n, h.model[n], bytes(h.priv[n]))
        _interesting(ctx, h.model[n])
    if cfg.get('final_blob') and len(names) >= 2:
        halves = [h.priv[n] if h.priv[n].is_public else h.priv[n].pubkey for n in names]
        blob = b''.join(bytes(x) for x in halves)
        ctx.probe('coalesced_blob')
        ctx.checked()
        try:
            first, rest = h.pgpy.PGPKey.from_blob(blob)
            got = [first] + [k for k in rest.values() if k is not first]
        except Exception as e:
            ctx.viol('C14:blob-unreadable:%s' % type(e).__name__, 'PGPy cannot load several keys coalesced in one blob: %s' % e)
            got = []
        if got:
            fps = sorted(str(k.fingerprint) for k in got)
            want = sorted(str(x.fingerprint) for x in halves)
            if fps != want:
                ctx.viol('C14:blob-split-wrong', 'a blob of %d keys was separated into %d keys (fingerprints differ)' % (len(want), len(fps)))
            for k in got:
                n = [x for x in names if str(h.priv[x].fingerprint) == str(k.fingerprint)]
                if n:
                    compare_structure(ctx, 'key %s taken from a coalesced blob' % n[0], _exported_view(h.model[n[0]]), bytes(k))
    if ctx.probes.get('hop_private') or ctx.probes.get('hop_public'):
        if any(ctx.probes.get(p) for p in ('same_second_pair_on_component', 'nonexportable_cert', 'explicit_exportable_true')) or \
                any(s.kind == 'rev' for n in names for u in h.model[n].uids for s in u.sigs):
            ctx.mark_nontrivial('hop')


def _exported_view(mk):
    """the model as it looks after an export (non-exportable signatures stay behind)"""
    v = copy.copy(mk)
    v.uids = []
    for u in mk.uids:
        nu = keyworld.MUid(u.kind, u.octets)
        nu.removed = u.removed
        nu.sigs = [s for s in u.sigs if s.exportable]
        v.uids.append(nu)
    v.direct = [s for s in mk.direct if s.exportable]
    return v


def _interesting(ctx, mk):
    comps = [u.sigs for u in mk.live_uids()] + [s.sigs for s in mk.subs] + [mk.direct]
    for sigs in comps:
        secs = [s.created_us // 1_000_000 for s in sigs]
        if len(secs) != len(set(secs)):
            ctx.probe('same_second_pair_on_component')
        us = [s.created_us for s in sigs]
        if len(set(us)) == len(us) and len(secs) != len(set(secs)):
            ctx.probe('subsecond_pair_lost_on_wire')
    for u in mk.live_uids():
        if u.kind == 'uattr':
            ctx.probe('uattr')
        for s in u.sigs:
            if not s.exportable:
                ctx.probe('nonexportable_cert')
    if any(not s.exportable for s in mk.direct):
        ctx.probe('nonexportable_direct')
    if any(s.kind == 'revoker' for s in mk.direct):
        ctx.probe('revoker')
