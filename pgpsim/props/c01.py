"""C01 - signature soundness: verification never accepts what was not signed.

Signer parties (real PGPy) produce signatures of every kind; each artifact is sent
to a verifier party over a channel that applies one typed semantic mutation per
delivery (F1/F5: bit flips in the signature header / hashed area / integers, type
and algorithm substitution, subject edits, user-id and subkey swaps, key-material
flips, issuer rewrite with another key, cross-history splices).  Oracle: a ledger
of what was really signed, in the reference peer's terms (signer fingerprint, RFC
hash input, signature integers).  Whatever PGPy reports as good on the verifier
side must be in the ledger."""
import copy

from .. import bridge, seams, sigworld
from ..core import CallTimeout, watchdog
from ..ref import armor as rarmor, enc as renc, sigs as rsigs
from ..ref.wire import WireError, encode_packet, max_declared_subpacket_length, split_packets

ID = 'C01'
RULE = ('cases are histories of 3-8 signing operations, each followed by a control delivery and 2-6 faulted deliveries '
        '(one typed mutation each) and clock ticks; a run is non-trivial when at least one semantic mutation (the reference '
        'peer\'s view of signer/hash input/integers changed) reached PGPKey.verify and its verdict was compared with the '
        'ledger; distinct = distinct (signature kind, fault kind) multisets among non-trivial runs')
TIERS = {'quick': {'runs': 3000, 'budget_s': 80}, 'thorough': {'runs': 250000, 'budget_s': 1500}}
PROBES = ('cleartext_line_end_other_whitespace', 'ecdh_kdf_parameters_altered', 'subject_key_in_private_form', 'verified_after_signature_expiry', 'backsig_replayed_under_other_primary', 'str_subject_with_lone_surrogate', 'issuer_rewrite_to_encryption_subkey', 'control_verified', 'ledger_entry_not_ref_valid', 'control_failed', 'nonsemantic_skipped', 'mutant_rejected_raise', 'mutant_rejected_falsy',
          'ref_unparsable_skipped', 'splice_cross_history', 'issuer_rewrite', 'subkey_signer', 'msg_multi_signer',
          'verifier_behind_signer', 'sig_expired_at_verify')
FAULTS = ('sig_mpi_widen', 'sig_flip_hdr', 'sig_flip_hlen', 'sig_flip_hashed', 'sig_flip_mpi', 'sig_type', 'sig_halg', 'sig_pkalg', 'issuer_rewrite',
          'doc_flip', 'doc_append', 'doc_truncate', 'doc_eol', 'uid_edit', 'uid_swap', 'key_flip', 'key_ctime', 'subkey_swap',
          'target_swap', 'splice_sig', 'msg_literal_flip', 'msg_sig_flip', 'cleartext_edit', 'sp_value', 'doc_surrogate', 'key_kdf')

TYPE_SWAPS = {0x00: [0x01, 0x02], 0x01: [0x00, 0x02], 0x02: [0x40, 0x00], 0x40: [0x02, 0x00], 0x10: [0x11, 0x13, 0x30], 0x11: [0x10, 0x12],
              0x12: [0x13, 0x10], 0x13: [0x10, 0x30, 0x16], 0x16: [0x13, 0x10], 0x18: [0x19, 0x28], 0x19: [0x18], 0x1F: [0x20],
              0x20: [0x1F], 0x28: [0x18], 0x30: [0x10, 0x13]}


def generate(rng, tier):
    keys = sigworld.gen_keys(rng, heavy=0.08)
    knames = sorted(keys)
    steps = []
    n = rng.randint(3, 8 if tier == 'thorough' else 5)
    for i in range(n):
        sid = 's%d' % i
        if rng.random() < 0.15:
            steps.append({'id': sid, 'op': 'tick', 'delta_us': rng.choice([0, 500_000, 1_000_000, 3600_000_000, -3600_000_000,
                                                                          86400_000_000 * 40])})
            continue
        st = sigworld.gen_sign_step(rng, sid, knames, full_options=False)
        if st['kind'] == 'msg':
            st['compression'] = rng.choice([0, 0, 1, 2])
        nd = rng.choice([2, 3, 4, 6]) if tier == 'quick' else rng.choice([3, 5, 8])
        st['deliveries'] = [{'fault': rng.choice(FAULTS), 'pos': rng.random(), 'bit': rng.randrange(8), 'alt': rng.randrange(1 << 16),
                             'copies': rng.random() < 0.35, 'late': rng.random() < 0.4, 'subject_private': rng.random() < 0.35}
                            for _ in range(nd)]
        steps.append(st)
    return {'config': {'keys': keys, 'start_us': 1_600_000_000_000_000}, 'steps': steps}


def simplify(case):
    for i, s in enumerate(case['steps']):
        if s['op'] != 'sign':
            continue
        if len(s.get('deliveries', [])) > 1:
            for j in range(len(s['deliveries'])):
                c = copy.deepcopy(case)
                c['steps'][i]['deliveries'] = [s['deliveries'][j]]
                yield c
        for name in sorted(s.get('opts', {})):
            c = copy.deepcopy(case)
            del c['steps'][i]['opts'][name]
            yield c
        if s.get('hash') != 8:
            c = copy.deepcopy(case)
            c['steps'][i]['hash'] = 8
            yield c
        if s.get('nsigners', 1) > 1:
            c = copy.deepcopy(case)
            c['steps'][i]['nsigners'] = 1
            yield c
        if s.get('compression'):
            c = copy.deepcopy(case)
            c['steps'][i]['compression'] = 0
            yield c
    keys = case['config']['keys']
    for k in sorted(keys):
        if keys[k]['alg'] != 'ed25519':
            c = copy.deepcopy(case)
            c['config']['keys'][k]['alg'] = 'ed25519'
            yield c
        if len(keys[k]['uids']) > 2:
            c = copy.deepcopy(case)
            c['config']['keys'][k]['uids'] = keys[k]['uids'][:2]
            yield c


# ---------------------------------------------------------------------------
def _sig_layout(pktbytes):
    """offsets (relative to the start of pktbytes) of the fields of a single signature packet"""
    p = split_packets(pktbytes)[0]
    h = len(p.raw) - len(p.body)
    b = p.body
    hl = int.from_bytes(b[4:6], 'big')
    ul = int.from_bytes(b[6 + hl:8 + hl], 'big')
    mp = 8 + hl + ul + 2
    mpis = []
    off = mp
    while off + 2 <= len(b):
        n = (int.from_bytes(b[off:off + 2], 'big') + 7) // 8
        mpis.append((h + off + 2, h + off + 2 + n))
        off += 2 + n
    return {'h': h, 'hdr': (h, h + 4), 'hlen': (h + 4, h + 6), 'hashed': (h + 6, h + 6 + hl), 'unhashed': (h + 8 + hl, h + 8 + hl + ul),
            'mpis': mpis, 'body': b, 'type': b[1], 'pkalg': b[2], 'halg': b[3]}


def _flip(data, start, end, pos, bit):
    if end <= start:
        return None
    o = start + int(pos * (end - start)) % (end - start)
    m = bytearray(data)
    m[o] ^= 1 << bit
    return bytes(m)


def _packets_with_offsets(data):
    out = []
    off = 0
    for p in split_packets(data):
        h = len(p.raw) - len(p.body)
        out.append((p, off + h, off + len(p.raw)))
        off += len(p.raw)
    return out


def _giant(sigpkt):
    try:
        b = split_packets(sigpkt)[0].body
        hl = int.from_bytes(b[4:6], 'big')
        ul = int.from_bytes(b[6 + hl:8 + hl], 'big')
        return max(max_declared_subpacket_length(b[6:6 + hl]), max_declared_subpacket_length(b[8 + hl:8 + hl + ul])) > 70000
    except Exception:
        return False


def mutate(art, d, w, history, ctx):
    """Apply one typed mutation.  Returns (mutated artifact, definitely_semantic flag) or None when
    the fault does not apply to this artifact."""
    f = d['fault']
    a = art.copy()
    s = a.subject
    pos, bit = d['pos'], d['bit']
    try:
        if f.startswith('sig_') or f in ('issuer_rewrite', 'sp_value'):
            if a.sig is None:
                return None
            lay = _sig_layout(a.sig)
            if f == 'sig_flip_hdr':
                a.sig = _flip(a.sig, lay['hdr'][0], lay['hdr'][1], pos, bit)
                return a, True
            if f == 'sig_flip_hlen':
                a.sig = _flip(a.sig, lay['hlen'][0], lay['hlen'][1], pos, bit)
                return (a, True) if not _giant(a.sig) else None
            if f == 'sig_flip_hashed':
                a.sig = _flip(a.sig, lay['hashed'][0], lay['hashed'][1], pos, bit)
                if a.sig is None or _giant(a.sig):
                    return None
                return a, True
            if f == 'sig_flip_mpi':
                if not lay['mpis']:
                    return None
                m0, m1 = lay['mpis'][int(pos * 7919) % len(lay['mpis'])]
                a.sig = _flip(a.sig, m0, m1, pos, bit)
                return (a, False) if a.sig else None
            if f == 'sig_mpi_widen':
                # the same low-order octets with k * 2^(8*len) added on top: another integer in a wider field
                if not lay['mpis']:
                    return None
                from ..ref.wire import mpi as _mpi
                m0, m1 = lay['mpis'][int(pos * 7919) % len(lay['mpis'])]
                b0, b1 = m0 - lay['h'], m1 - lay['h']
                old = int.from_bytes(lay['body'][b0:b1], 'big')
                new = old + (((d['alt'] % 255) + 1) << (8 * (b1 - b0) if bit % 2 else 256))
                if new == old:
                    return None
                nb = lay['body'][:b0 - 2] + _mpi(new) + lay['body'][b1:]
                a.sig = encode_packet(2, nb)
                return a, False
            if f in ('sig_type', 'sig_halg', 'sig_pkalg'):
                m = bytearray(a.sig)
                if f == 'sig_type':
                    alts = TYPE_SWAPS.get(lay['type'], [0x00])
                    m[lay['h'] + 1] = alts[d['alt'] % len(alts)]
                elif f == 'sig_halg':
                    alts = [x for x in (1, 2, 8, 9, 10, 11) if x != lay['halg']]
                    m[lay['h'] + 3] = alts[d['alt'] % len(alts)]
                else:
                    alts = [x for x in (1, 3, 17, 19, 22) if x != lay['pkalg']]
                    m[lay['h'] + 2] = alts[d['alt'] % len(alts)]
                a.sig = bytes(m)
                return a, True
            if f == 'sp_value':
                # typed edit of one hashed subpacket: last body octet +1 (creation time, flags, booleans ...)
                from ..ref.wire import split_subpackets
                sps = split_subpackets(lay['body'][6:lay['hashed'][1] - lay['h']])
                sps = [x for x in sps if x.body]
                if not sps:
                    return None
                sp = sps[d['alt'] % len(sps)]
                o = lay['hashed'][0] + sp.off + len(sp.raw) - 1
                m = bytearray(a.sig)
                m[o] = (m[o] + 1) & 0xFF
                a.sig = bytes(m)
                return a, True
            if f == 'issuer_rewrite':
                from ..ref.wire import split_subpackets
                others = [n for n in sorted(w.keys) if n != a.signer_name]
                if not others:
                    return None
                ok = w.keys[others[d['alt'] % len(others)]]
                un = lay['body'][lay['unhashed'][0] - lay['h']:lay['unhashed'][1] - lay['h']]
                iss = [x for x in split_subpackets(un) if x.type == 16]
                if not iss:
                    return None
                o = lay['unhashed'][0] + iss[-1].off + len(iss[-1].raw) - 8
                m = bytearray(a.sig)
                own = w.keys[a.signer_name]
                nosign = [sk for sk in own.subkeys.values() if not sk.key_algorithm.can_sign]
                if nosign and d['alt'] % 3 == 0:
                    # re-pointed at a component of the same key that has no signature scheme at all (its encryption subkey)
                    m[o:o + 8] = bytes.fromhex(str(nosign[0].fingerprint))[-8:]
                    a.sig = bytes(m)
                    ctx.probe('issuer_rewrite_to_encryption_subkey')
                    return a, True
                m[o:o + 8] = bytes.fromhex(str(ok.fingerprint))[-8:]
                a.sig = bytes(m)
                a.verifier = bytes(ok.pubkey)
                ctx.probe('issuer_rewrite')
                return a, True
        if f == 'splice_sig':
            # cross-history: an earlier signature of the same kind presented with this subject
            cands = [h for h in history if h.kind == a.kind and h.sig is not None and h.sig != a.sig]
            if not cands or a.sig is None:
                return None
            o = cands[d['alt'] % len(cands)]
            a.sig = o.sig
            a.verifier = o.verifier
            ctx.probe('splice_cross_history')
            return a, False
        if f.startswith('doc_'):
            if s['t'] != 'doc':
                return None
            data = s['data']
            if f == 'doc_surrogate':
                # a str subject as the file system or a lenient decoder hands it over: one character (a '?', or one outside
                # latin-1) replaced by a lone surrogate.  Another text; if it cannot be encoded, that is an error, not a match
                if not s.get('as_str'):
                    return None
                text = data.decode('utf-8')
                cands = [i for i, ch in enumerate(text) if ch == '?' or ord(ch) > 0xFF]
                if not cands:
                    return None
                i = cands[d['alt'] % len(cands)]
                s['str_override'] = text[:i] + chr(0xDC80 + d['alt'] % 0x7F) + text[i + 1:]
                s['data'] = s['str_override'].encode('utf-8', 'surrogatepass')
                ctx.probe('str_subject_with_lone_surrogate')
                return a, True
            if f == 'doc_flip':
                if not data:
                    return None
                s['data'] = _flip(data, 0, len(data), pos, bit)
            elif f == 'doc_append':
                s['data'] = data + bytes([d['alt'] & 0xFF]) if d['alt'] & 0x100 else data + b'\n'
            elif f == 'doc_truncate':
                if not data:
                    return None
                s['data'] = data[:-1]
            elif f == 'doc_eol':
                nd = data.replace(b'\r\n', b'\n').replace(b'\n', b'\r\n') if b'\r\n' not in data else data.replace(b'\r\n', b'\n')
                if nd == data:
                    return None
                s['data'] = nd
            if s.get('as_str'):
                try:
                    s['data'].decode('utf-8')
                except UnicodeDecodeError:
                    s['as_str'] = False
            return a, False
        if f == 'key_kdf':
            # an ECDH subkey's KDF parameters (hash and key-wrap cipher ids) replaced by other assigned values: part of the
            # signed key material like the point itself
            if s['t'] != 'subkey':
                return None
            from ..ref import keys as rk
            for p, b0, b1 in _packets_with_offsets(s['keybytes']):
                if p.tag == 14 and p.body[5] == 18 and rk.parse_pub(p.body).fingerprint == s['subfp']:
                    m = bytearray(s['keybytes'])
                    o = b1 - 1 - (d['alt'] % 2)
                    alts = [x for x in ((7, 8, 9) if o == b1 - 1 else (8, 9, 10)) if x != m[o]]
                    m[o] = alts[(d['alt'] >> 1) % len(alts)]
                    s['keybytes'] = bytes(m)
                    s['subfp'] = rk.parse_pub(bytes(m[b0:b1])).fingerprint
                    ctx.probe('ecdh_kdf_parameters_altered')
                    return a, False
            return None
        if f in ('uid_edit', 'uid_swap', 'key_flip', 'key_ctime', 'subkey_swap', 'target_swap'):
            if s['t'] not in ('uid', 'key', 'subkey'):
                return None
            pk = _packets_with_offsets(s['keybytes'])
            if f == 'uid_edit':
                if s['t'] != 'uid':
                    return None
                want = s['uid'] if s.get('uid') is not None else None
                for p, b0, b1 in pk:
                    if (want is not None and p.tag == 13 and p.body == want) or (want is None and p.tag == 17 and s['image'] in p.body):
                        if want is not None and b1 == b0:
                            return None            # the empty user id has no octet to edit
                        m = bytearray(s['keybytes'])
                        o = b0 + int(pos * (b1 - b0)) % (b1 - b0) if want is not None else b1 - 1 - int(pos * 8)
                        if want is not None:
                            # stay inside printable ASCII so that the id still matches by text
                            old = m[o]
                            m[o] = 0x41 + ((old + 1) % 26) if old < 0x80 else old ^ 1
                            if m[o] == old:
                                m[o] ^= 1
                            s['uid'] = bytes(m[b0:b1])
                            try:
                                s['uid'].decode('utf-8')
                            except UnicodeDecodeError:
                                return None
                        else:
                            m[o] ^= 1 << bit
                            io = bytes(p.body).find(s['image'])
                            s['image'] = bytes(m[b0 + io:b0 + io + len(s['image'])])
                        s['keybytes'] = bytes(m)
                        return a, False
                return None
            if f == 'uid_swap':
                if s['t'] != 'uid' or s.get('uid') is None:
                    return None
                others = [p.body for p, _, _ in pk if p.tag == 13 and p.body != s['uid']]
                if not others:
                    return None
                s['uid'] = others[d['alt'] % len(others)]
                return a, False
            if f in ('key_flip', 'key_ctime'):
                tags = (6,) if s['t'] != 'subkey' else (6, 14)
                cands = [(p, b0, b1) for p, b0, b1 in pk if p.tag in tags]
                if s['t'] == 'subkey':
                    from ..ref import keys as rk
                    cands = [c for c in cands if c[0].tag == 6 or rk.parse_pub(c[0].body).fingerprint == s['subfp']]
                p, b0, b1 = cands[d['alt'] % len(cands)]
                m = bytearray(s['keybytes'])
                if f == 'key_ctime':
                    m[b0 + 4] ^= 1
                else:
                    # inside the last quarter of the key material: the integer / point value, not a length field
                    o = b1 - 1 - int(pos * max(1, (b1 - b0 - 6) // 4))
                    m[o] ^= 1 << bit
                s['keybytes'] = bytes(m)
                if s['t'] == 'subkey' and p.tag == 14:
                    from ..ref import keys as rk
                    s['subfp'] = rk.parse_pub(bytes(m[b0:b1])).fingerprint
                return a, False
            if f == 'subkey_swap':
                if s['t'] != 'subkey':
                    return None
                from ..ref import keys as rk
                fps = [rk.parse_pub(p.body).fingerprint for p, _, _ in pk if p.tag == 14]
                others = [x for x in fps if x != s['subfp']]
                if not others:
                    return None
                s['subfp'] = others[d['alt'] % len(others)]
                return a, False
            if f == 'target_swap':
                others = [n for n in sorted(w.keys) if bytes(w.keys[n].pubkey) != s['keybytes']]
                if not others:
                    return None
                ok = w.keys[others[d['alt'] % len(others)]]
                s['keybytes'] = bytes(ok.pubkey)
                if s['t'] == 'uid':
                    if s.get('uid') is None or not ok.userids:
                        return None
                    s['uid'] = ok.userids[0].userid.encode('utf-8')
                if s['t'] == 'subkey':
                    if not ok.subkeys:
                        return None
                    s['subfp'] = bytes.fromhex(str(list(ok.subkeys.values())[0].fingerprint))
                return a, False
        if f in ('msg_literal_flip', 'msg_sig_flip'):
            if s['t'] != 'msg':
                return None
            top = split_packets(s['bytes'])
            comp = None
            if len(top) == 1 and top[0].tag == 8:
                comp = top[0].body[0]
                inner = renc.decompress(top[0].body)
            else:
                inner = s['bytes']
            pk = _packets_with_offsets(inner)
            m = bytearray(inner)
            if f == 'msg_literal_flip':
                lit = [(p, b0, b1) for p, b0, b1 in pk if p.tag == 11]
                if not lit:
                    return None
                p, b0, b1 = lit[0]
                fl = p.body[1]
                d0 = b0 + 6 + fl
                if b1 <= d0:
                    return None
                m[d0 + int(pos * (b1 - d0)) % (b1 - d0)] ^= 1 << bit
                sem = True
            else:
                sg = [(p, b0, b1) for p, b0, b1 in pk if p.tag == 2]
                if not sg:
                    return None
                p, b0, b1 = sg[d['alt'] % len(sg)]
                hl = int.from_bytes(p.body[4:6], 'big')
                m[b0 + int(pos * (6 + hl)) % (6 + hl)] ^= 1 << bit
                sem = False
                if _giant(bytes(m[b0 - (len(p.raw) - len(p.body)):b1])):
                    return None
            s['bytes'] = bytes(m) if comp is None else encode_packet(8, renc.compress(comp, bytes(m)))
            return a, False
        if f == 'cleartext_edit':
            if s['t'] != 'cleartext':
                return None
            txt = s['armored']
            head = txt.index('\n\n') + 2 if '\n\n' in txt[:200] else txt.index('\n') + 1
            tail = txt.index('-----BEGIN PGP SIGNATURE-----')
            body = txt[head:tail - 1]
            vis = [i for i, ch in enumerate(body) if ch.isalnum()]
            if not vis:
                return None
            if d['alt'] % 3 == 0:
                # a white-space character other than space and tab put at (or taken from) the end of a line: RFC 4880 7.1 leaves
                # only trailing spaces and tabs unsigned
                ends = [m.end() for m in __import__('re').finditer(r'[^\s]$', body, __import__('re').M)]
                if not ends:
                    return None
                e = ends[int(pos * len(ends)) % len(ends)]
                ws = ['\xa0', '\u3000', '\x0c', '\x0b', '\u2000', '\x1f', '\x85', '\u202f'][(d['alt'] // 3) % 8]
                s['armored'] = txt[:head] + body[:e] + ws + body[e:] + txt[tail - 1:]
                ctx.probe('cleartext_line_end_other_whitespace')
                return a, False
            i = vis[int(pos * len(vis)) % len(vis)]
            ch = body[i]
            nb = body[:i] + ('x' if ch != 'x' else 'y') + body[i + 1:]
            s['armored'] = txt[:head] + nb + txt[tail - 1:]
            return a, False
    except (WireError, IndexError, ValueError):
        return None
    return None


def execute(case, ctx):
    w = sigworld.SigWorld(case['config']['keys'], ctx)
    clock = seams.clock()
    clock.set(case['config'].get('start_us', 1_600_000_000_000_000))
    ledger = set()
    history = []
    pairs = []
    # every self-signature that key construction made is in the ledger too (in-key certifications)
    for name, k in sorted(w.keys.items()):
        try:
            tk = bridge.ref_tkey(bytes(k.pubkey))
            from ..ref import tkey as rtkey
            for comp, sg, ok, note in rtkey.check_self_sigs(tk):
                if sg is not None and ok:
                    signer = bridge.find_signer(tk, sg)
                    subj = rtkey.subject_for(tk, comp, sg)
                    ledger.add(sigworld.entry_identity((sg, signer, subj)))     # keys PGPy exports are canonically encoded
        except WireError:
            pass
    for step in case['steps']:
        ctx.step = step['id']
        ctx.steps_done += 1
        if step['op'] == 'tick':
            clock.advance(step['delta_us'])
            if step['delta_us'] < 0:
                ctx.probe('verifier_behind_signer')
            ctx.event(step['id'], 'tick', step['delta_us'])
            continue
        seams.rnd().set_step(step['id'])
        art = w.produce(step)
        if art is None:
            continue
        rv = sigworld.ref_view(art, canonical=True)
        if rv.error or not rv.entries:
            # the reference peer cannot even read the original: nothing to anchor a ledger entry on (C02/C08 territory)
            ctx.event(step['id'], 'sign', step['kind'], 'not-in-ledger')
            continue
        if not all(sigworld.ref_valid(e) for e in rv.entries if e[1] is not None):
            # completeness is C02's business; the ledger still records *what was signed* in RFC terms, so that a
            # hashing error PGPy makes on both sides cannot hide an accepted change of the subject
            ctx.probe('ledger_entry_not_ref_valid')
        if step['kind'] == 'msg' and getattr(art, 'signers', None):
            # co-signers' signatures enter the ledger through their own keys
            for vb in art.signers:
                a2 = art.copy()
                a2.verifier = vb
                for e in sigworld.ref_view(a2, canonical=True).entries:
                    if e[1] is not None:
                        ledger.add(sigworld.entry_identity(e))
            if len(art.signers) > 1:
                ctx.probe('msg_multi_signer')
        for e in rv.entries:
            if e[1] is not None:
                ledger.add(sigworld.entry_identity(e))
                if e[1].fingerprint != bridge.ref_tkey(art.verifier).pub.fingerprint:
                    ctx.probe('subkey_signer')
        # control delivery (sanity probe only; completeness is C02's)
        try:
            ok = bool(w.pgpy_verify(art))
        except Exception:
            ok = False
        ctx.probe('control_verified' if ok else 'control_failed')
        for di, d in enumerate(step.get('deliveries', [])):
            r = mutate(art, d, w, history, ctx)
            if r is None or r[0] is None:
                continue
            mut, definitely = r
            ctx.fault(d['fault'])
            _deliver(w, art, mut, definitely, d, step, ledger, ctx, pairs)
        if step['kind'] == 'bind' and art.sig is not None:
            _backsig_replay(w, art, step, case, ctx, pairs)
        history.append(art)
        ctx.event(step['id'], 'sign', step['kind'], len(step.get('deliveries', [])))
    if pairs:
        ctx.mark_nontrivial(','.join(sorted(pairs)))


def _backsig_replay(w, art, step, case, ctx, pairs):
    """A signing subkey's embedded primary-key-binding signature (0x19) replayed under another primary key: the reference peer
    builds that other key, binds the same subkey to it with a valid 0x18 of its own and embeds the old 0x19, which was made over
    the first primary.  Nothing about that subkey may verify as a whole under the new primary."""
    from ..ref import keys as rkeys
    from ..ref.wire import encode_subpacket, split_subpackets
    from .c05 import make_ref_key
    try:
        outer = rsigs.parse_sig(split_packets(art.sig)[0].body)
        embs = [sp.body for sp in split_subpackets(outer.unhashed) if sp.type == 32] + [sp.body for sp in split_subpackets(outer.hashed) if sp.type == 32]
        subpkt = [p for p in split_packets(art.subject['keybytes']) if p.tag == 14 and rkeys.parse_pub(p.body).fingerprint == art.subject['subfp']]
    except (WireError, KeyError, IndexError):
        return
    if not embs or not subpkt:
        return
    spub = rkeys.parse_pub(subpkt[0].body)
    created = 1_500_000_000
    mb, malg, msec = make_ref_key('ed25519', created, b'', case['run_seed'], label='mallory' + step['id'])
    mpub = rkeys.parse_pub(mb)
    base = bridge.build_ref_tkey(mb, malg, msec, b'Mallory <m@example.org>', created)
    h = rsigs.sp_created(created + 10) + rsigs.sp_keyflags(0x02) + rsigs.sp_issuer_fpr(mpub.fingerprint)
    uh = rsigs.sp_issuer(mpub.keyid) + encode_subpacket(32, embs[0])
    blob = base + encode_packet(14, subpkt[0].body) + encode_packet(2, rsigs.sign(0x18, mpub, msec, 8, h, uh, rsigs.subject_subkey(mpub, spub)))
    ctx.fault('backsig_replay')
    ctx.checked()
    ctx.probe('backsig_replayed_under_other_primary')
    pairs.append('bind/backsig_replay')
    try:
        with watchdog(30):
            K = w.pgpy.PGPKey.from_blob(blob)[0]
            sk = list(K.subkeys.values())[0]
            res = K.verify(sk)
            truthy, ngood, nbad = bool(res), len(list(res.good_signatures)), len(list(res.bad_signatures))
    except CallTimeout:
        return
    except Exception:
        ctx.probe('mutant_rejected_raise')
        return
    if truthy and nbad == 0 and ngood >= 2:
        ctx.viol('C01:accepted:backsig_replay:bind', 'a primary-key-binding signature made for one primary key is listed as good for the same subkey under '
                 'another primary key (verify(subkey): %d good, none bad)' % ngood)
    ctx.probe('mutant_rejected_falsy')


def _private_form_subject(w, art, mut, ctx):
    """The subject key is held by the verifier in its private form (the owner checking signatures on its own key): the same
    packets with the secret parts behind the - possibly altered - public parts.  What is signed are the public parts as
    they stand in the packets."""
    from ..ref import keys as rk
    owner = [k for k in w.keys.values() if not k.is_public and bytes(k.pubkey) == art.subject['keybytes']]
    if not owner:
        return
    try:
        secs = [p for p in split_packets(bytes(owner[0])) if p.tag in (5, 7)]
        out = bytearray()
        j = 0
        for p in split_packets(mut.subject['keybytes']):
            if p.tag in (6, 14):
                tail = secs[j].body[rk.parse_pub(secs[j].body).publen:]
                out += encode_packet(5 if p.tag == 6 else 7, p.body + tail)
                j += 1
            else:
                out += p.raw
    except (WireError, IndexError, ValueError, rk.KeyError_):
        return
    mut.subject['keybytes_private'] = bytes(out)
    ctx.probe('subject_key_in_private_form')


def _deliver(w, art, mut, definitely, d, step, ledger, ctx, pairs):
    rv = sigworld.ref_view(mut, canonical=True)
    entries = [e for e in rv.entries if e[1] is not None and e[2] is not None]
    if rv.error and not definitely:
        ctx.probe('ref_unparsable_skipped')
        return
    if not rv.error:
        ids = [sigworld.entry_identity(e) for e in entries]
        if entries and all(i in ledger for i in ids) and len(entries) == len(rv.entries):
            ctx.probe('nonsemantic_skipped')
            return
    # --- the verifier party (possibly long after the signature was made: its own expiration may have passed by then)
    late = d.get('late') and step.get('opts', {}).get('expires_s')
    clock = seams.clock()
    t0 = clock.us
    if late:
        clock.advance((step['opts']['expires_s'] + 86400) * 1_000_000)
        ctx.probe('verified_after_signature_expiry')
    if d.get('subject_private') and mut.subject['t'] in ('key', 'uid', 'subkey'):
        _private_form_subject(w, art, mut, ctx)
    try:
        with watchdog(30):
            try:
                res = w.pgpy_verify(mut, copies=bool(d.get('copies')))
                truthy = bool(res)
                good = list(res.good_signatures)
                nexamined = len(res)
            finally:
                if late:
                    clock.set(t0)
    except CallTimeout:
        ctx.probe('pgpy_call_timeout')
        return
    except Exception:
        ctx.probe('mutant_rejected_raise')
        pairs.append('%s/%s' % (step['kind'], d['fault']))
        ctx.checked()
        return
    ctx.checked()
    pairs.append('%s/%s' % (step['kind'], d['fault']))
    if not good:
        if truthy and nexamined:
            # callers act on the truth value: signatures were examined, none is good, and the answer is still yes
            ctx.viol('C01:accepted:%s:%s' % (d['fault'], step['kind']),
                     'verify() is truthy for a %s artifact after fault %s although none of the %d signatures examined is listed as good%s'
                     % (step['kind'], d['fault'], nexamined, ' (verified after the signature\'s own expiry)' if late else ''))
        ctx.probe('mutant_rejected_falsy')
        return
    # every signature PGPy lists as good must be in the ledger
    by_pkt = {}
    for e in rv.entries:
        by_pkt[(e[0].hashed, tuple(e[0].mpis), e[0].type, e[0].halg, e[0].pkalg)] = e
    for g in good:
        try:
            gs = bridge.ref_sig(bytes(g.signature))
            key = (gs.hashed, tuple(gs.mpis), gs.type, gs.halg, gs.pkalg)
        except Exception:
            key = None
        e = by_pkt.get(key)
        if e is None:
            if definitely:
                ctx.viol('C01:accepted:%s:%s' % (d['fault'], step['kind']),
                         'PGPy reports a good signature for a %s artifact after fault %s, which the reference peer cannot even '
                         'associate with a signed statement' % (step['kind'], d['fault']))
            continue
        if e[1] is None or e[2] is None or sigworld.entry_identity(e) not in ledger:
            ctx.viol('C01:accepted:%s:%s' % (d['fault'], step['kind']),
                     'PGPy verifies a %s signature (type 0x%02x) after fault %s although signer / hashed octets / signature '
                     'integers differ from everything that was signed (truthy=%s)' % (step['kind'], e[0].type, d['fault'], truthy))
