"""C19 - keyring index stays consistent over any load / unload history.

Stateful model check: load / unload / select histories over a universe of keys
that share names, comments and e-mails, with public and private halves and
subkeys, loaded from objects, binary, armor, SimFS paths and lists, with
failing items in the middle of a batch (X2) and duplicated deliveries (P4).
Oracle: a list-of-loaded-objects model; after every step the keyring's
fingerprints(), len(), membership and selection by every identifier must agree
with the model.
"""
import hashlib

from .. import seams
from .. import world

ID = 'C19'
RULE = ('cases are seeded load/unload/select histories (5-40 steps) over a per-run universe of 3-8 keys with shared '
        'names/comments/e-mails, public+private halves and subkeys; a run is non-trivial when, after at least one '
        'unload, a still-loaded key shared an alias with an unloaded or re-loaded one and the full invariant sweep ran; '
        'distinct = distinct step-kind sequences among non-trivial runs')
TIERS = {'quick': {'runs': 6000, 'budget_s': 50}, 'thorough': {'runs': 400000, 'budget_s': 1500}}
PROBES = ('load_both_halves_in_one_blob', 'subkey_unloaded_on_its_own', 'alias_shared_by_3', 'pub_and_priv_both_loaded', 'batch_failed_at_k>0', 'reload_after_unload',
          'same_key_loaded_twice', 'unload_with_shared_alias', 'select_by_signature', 'select_by_message',
          'load_from_path', 'load_concat_blob')

NAMES = ['Alice', 'Bob', 'Carol Danvers', 'Ada Bee', 'Abe']          # the last two are spelt with hex digits only
COMMENTS = ['', 'work', 'home', 'bad cafe']
EMAILS = ['', 'a@example.org', 'shared@example.org', 'b@example.org']


def generate(rng, tier):
    nkeys = rng.randint(3, 8 if tier == 'thorough' else 6)
    keys = {}
    t0 = 1_500_000_000_000_000
    for i in range(nkeys):
        r = rng.random()
        alg = 'ed25519' if r < 0.7 else rng.choice(['p256', 'p384', 'secp256k1', 'ed25519']) if r < 0.97 else rng.choice(['rsa2048', 'dsa2048'])
        nuid = rng.choice([1, 1, 1, 2, 3])
        uids = []
        for _ in range(nuid):
            uids.append([rng.choice(NAMES), rng.choice(COMMENTS), rng.choice(EMAILS)])
        subkeys = []
        for _ in range(rng.choice([0, 0, 1, 1, 2])):
            subkeys.append({'alg': rng.choice(['cv25519', 'ed25519', 'ecdh_p256']), 'usage': None})
        for sk in subkeys:
            sk['usage'] = 'E' if not world.can_sign(sk['alg']) else 'S'
        # creation times: often equal (the alias layers are ordered by creation time)
        created = t0 + rng.choice([0, 0, 1, 2, 3600, 86400 * 365]) * 1_000_000
        keys['k%d' % i] = {'alg': alg, 'uids': uids, 'subkeys': subkeys, 'created_us': created, 'usage': 'CS',
                           'created_tz': 'naive_utc' if rng.random() < 0.2 else None}
    steps = []
    nsteps = rng.randint(5, 40 if tier == 'thorough' else 24)
    knames = sorted(keys)
    # swarm: per-run weights
    w_load = rng.choice([3, 5, 8])
    w_unload = rng.choice([2, 4, 6])
    w_sel = rng.choice([0, 1, 2])
    focus = rng.sample(knames, min(len(knames), rng.choice([2, 3, len(knames)])))
    for n in range(nsteps):
        sid = 's%d' % n
        r = rng.random() * (w_load + w_unload + w_sel)
        if r < w_load:
            nitems = rng.choice([1, 1, 1, 2, 3])
            items = []
            for _ in range(nitems):
                items.append({'key': rng.choice(focus if rng.random() < 0.8 else knames),
                              'half': rng.choice(['pub', 'priv']),
                              'form': rng.choice(['obj', 'obj', 'obj', 'bin', 'armor', 'armor_bytes', 'path', 'path_armor', 'bytearray'])})
            st = {'id': sid, 'op': 'load', 'items': items,
                  'container': rng.choice(['args', 'list', 'tuple']) if nitems > 1 else rng.choice(['args', 'list'])}
            if rng.random() < 0.08 and nitems >= 2:
                # one blob holding several transferable keys
                st['concat'] = True
            if nitems == 1 and rng.random() < 0.1:
                # one blob (a keyring file) holding the public and the private half of the same key
                st['both_halves'] = rng.choice(['pub_first', 'priv_first'])
            if rng.random() < 0.12:
                st['fault'] = {'kind': 'X2', 'at': rng.randrange(nitems + 1),
                               'how': rng.choice(['truncated', 'wrong_kind', 'missing_path', 'garbage'])}
            steps.append(st)
        elif r < w_load + w_unload and rng.random() < 0.12:
            # a subkey object, selected by its own fingerprint, unloaded on its own: its primary stays
            steps.append({'id': sid, 'op': 'unload_subkey', 'key': rng.choice(focus if rng.random() < 0.8 else knames), 'sub': rng.randrange(3)})
        elif r < w_load + w_unload:
            steps.append({'id': sid, 'op': 'unload', 'key': rng.choice(focus if rng.random() < 0.8 else knames),
                          'by': rng.choice(['obj', 'obj', 'fp', 'keyid', 'shortid', 'name', 'email', 'spaced_fp']),
                          'half': rng.choice(['pub', 'priv', 'any'])})
        else:
            steps.append({'id': sid, 'op': rng.choice(['select_sig', 'select_msg']), 'key': rng.choice(knames)})
    return {'config': {'keys': keys}, 'steps': steps}


def simplify(case):
    """Per-step simplification candidates for the minimiser."""
    steps = case['steps']
    for i, s in enumerate(steps):
        if s['op'] == 'load':
            if s.get('fault'):
                c = _with(case, i, {k: v for k, v in s.items() if k != 'fault'})
                yield c
            if s.get('concat'):
                yield _with(case, i, {k: v for k, v in s.items() if k != 'concat'})
            if s.get('both_halves'):
                yield _with(case, i, {k: v for k, v in s.items() if k != 'both_halves'})
            if len(s['items']) > 1:
                for j in range(len(s['items'])):
                    ns = dict(s)
                    ns['items'] = s['items'][:j] + s['items'][j + 1:]
                    yield _with(case, i, ns)
            for j, it in enumerate(s['items']):
                if it['form'] != 'obj':
                    ns = dict(s)
                    ns['items'] = [dict(x) for x in s['items']]
                    ns['items'][j]['form'] = 'obj'
                    yield _with(case, i, ns)
            if s.get('container') != 'args':
                ns = dict(s)
                ns['container'] = 'args'
                yield _with(case, i, ns)
        if s['op'] == 'unload' and s.get('by') != 'obj':
            ns = dict(s)
            ns['by'] = 'obj'
            yield _with(case, i, ns)
    # drop unused keys / extra uids / subkeys from the universe
    used = set()
    for s in steps:
        if 'key' in s:
            used.add(s['key'])
        for it in s.get('items', []):
            used.add(it['key'])
    keys = case['config']['keys']
    for k in sorted(keys):
        if k not in used:
            c = _copy(case)
            del c['config']['keys'][k]
            yield c
    for k in sorted(keys):
        if keys[k].get('subkeys'):
            c = _copy(case)
            c['config']['keys'][k]['subkeys'] = keys[k]['subkeys'][:-1]
            yield c
        if len(keys[k]['uids']) > 1:
            c = _copy(case)
            c['config']['keys'][k]['uids'] = keys[k]['uids'][:-1]
            yield c
        if keys[k]['alg'] != 'ed25519':
            c = _copy(case)
            c['config']['keys'][k]['alg'] = 'ed25519'
            yield c


def _copy(case):
    import copy
    return copy.deepcopy(case)


def _with(case, i, newstep):
    c = _copy(case)
    c['steps'][i] = newstep
    return c


# ---------------------------------------------------------------------------
class Entry(object):
    __slots__ = ('obj', 'fp', 'pub', 'key', 'subfps', 'idents')

    def __init__(self, obj, key):
        self.obj = obj
        self.fp = str(obj.fingerprint)
        self.pub = obj.is_public
        self.key = key
        self.subfps = [str(sk.fingerprint) for sk in obj.subkeys.values()]
        ids = set()
        for u in obj.userids:
            ids.add(u.name)
            if u.comment:
                ids.add(u.comment)
            if u.email:
                ids.add(u.email)
        self.idents = ids


def _fp_idents(fp):
    pretty = ' '.join(fp[i:i + 4] for i in range(0, 40, 4))
    return [fp, pretty, fp[-16:], fp[-8:], fp[-16:-8] + ' ' + fp[-8:]]


class World(object):
    def __init__(self, case, ctx):
        import pgpy
        self.pgpy = pgpy
        self.ctx = ctx
        self.keys = {}
        for name in sorted(case['config']['keys']):
            spec = case['config']['keys'][name]
            priv = world.build_key(spec, name)
            pub = priv.pubkey
            self.keys[name] = {'priv': priv, 'pub': pub, 'spec': spec}
        self.kr = pgpy.PGPKeyring()
        self.loaded = []          # list of Entry: model of loaded primary objects
        self.ever_unloaded = False
        self.all_uid_idents = set()
        self.all_fps = {}
        for name, k in self.keys.items():
            e = Entry(k['priv'], name)
            self.all_uid_idents |= e.idents
            self.all_fps[e.fp] = name
            for s in e.subfps:
                self.all_fps[s] = name

    # --- model queries ---------------------------------------------------
    def model_fps(self, keyhalf='any', keytype='any'):
        out = set()
        for e in self.loaded:
            if keyhalf == 'public' and not e.pub:
                continue
            if keyhalf == 'private' and e.pub:
                continue
            if keytype in ('any', 'primary'):
                out.add(e.fp)
            if keytype in ('any', 'sub'):
                out.update(e.subfps)
        return out

    def model_nobjects(self):
        seen = set()
        n = 0
        for e in self.loaded:
            if id(e.obj) in seen:
                continue
            seen.add(id(e.obj))
            n += 1 + len(e.subfps)
        return n


def _blob(w, item, ctx):
    k = w.keys[item['key']][item['half']]
    form = item['form']
    if form == 'obj':
        return k
    if form == 'bin':
        return bytes(k)
    if form == 'bytearray':
        return bytearray(bytes(k))
    if form == 'armor':
        return str(k)
    if form == 'armor_bytes':
        return str(k).encode('ascii')
    if form in ('path', 'path_armor'):
        p = seams.SimFS.ROOT + '%s.%s.%s' % (item['key'], item['half'], 'asc' if form == 'path_armor' else 'gpg')
        seams.fs().write(p, str(k).encode('ascii') if form == 'path_armor' else bytes(k))
        ctx.probe('load_from_path')
        return p
    raise ValueError(form)


def _corrupt(how, w, ctx):
    if how == 'truncated':
        any_key = w.keys[sorted(w.keys)[0]]['pub']
        b = bytes(any_key)
        # fixed cut inside the key packet: total length depends on ECDSA/DSA signature noise
        return b[:25]
    if how == 'wrong_kind':
        k = w.keys[sorted(w.keys)[0]]['priv']
        return str(k.sign('x'))
    if how == 'missing_path':
        return seams.SimFS.ROOT + 'does-not-exist.gpg'
    return b'\x99\x00\x02zz-garbage'


def execute(case, ctx):
    w = World(case, ctx)
    kr = w.kr
    _sweep(w, ctx, 'init')
    for step in case['steps']:
        ctx.step = step['id']
        ctx.steps_done += 1
        op = step['op']
        if op == 'load':
            _do_load(w, step, ctx)
        elif op == 'unload':
            _do_unload(w, step, ctx)
        elif op == 'unload_subkey':
            _do_unload_subkey(w, step, ctx)
        elif op in ('select_sig', 'select_msg'):
            _do_select(w, step, ctx)
        _sweep(w, ctx, step['id'])
        fps = sorted(str(f) for f in kr.fingerprints())
        ctx.event(step['id'], op, len(kr), hashlib.sha256(','.join(fps).encode()).hexdigest()[:12])


def _do_load(w, step, ctx):
    kr = w.kr
    items = step['items']
    if not all(it['key'] in w.keys for it in items):
        return
    # determinism guard: PGPy breaks ties between carriers of an alias by object address, so the
    # simulated history never holds an object-loaded and a blob-loaded copy of the same (key, half)
    # at once (two blob-loaded copies are model-equivalent and allowed: duplicated delivery, P4)
    def clash(it):
        src = w.keys[it['key']][it['half']]
        for e in w.loaded:
            if e.key == it['key'] and e.pub == src.is_public:
                if (it['form'] == 'obj') != (e.obj is src):
                    return True
        return False
    both = step.get('both_halves') if len(items) == 1 and items[0]['form'] in ('bin', 'bytearray', 'path') else None
    if both:
        items = [dict(items[0], half=h) for h in (('pub', 'priv') if both == 'pub_first' else ('priv', 'pub'))]
        if any(clash(it) for it in items):
            return
    items = [it for it in items if not clash(it)]
    seen_forms = {}
    keep = []
    for it in items:
        k = (it['key'], it['half'])
        kind = it['form'] == 'obj'
        if seen_forms.setdefault(k, kind) == kind:
            keep.append(it)
    items = keep
    if not items:
        return
    args = []
    expect = []     # per arg: list of Entry factories (key name, half) or None for a corrupt item
    fault = step.get('fault')
    if both:
        blob = b''.join(bytes(w.keys[it['key']][it['half']]) for it in items)
        if items[0]['form'] == 'path':
            p = seams.SimFS.ROOT + '%s.both.gpg' % items[0]['key']
            seams.fs().write(p, blob)
            blob = p
        elif items[0]['form'] == 'bytearray':
            blob = bytearray(blob)
        args.append(blob)
        expect.append([(it['key'], it['half']) for it in items])
        ctx.probe('load_both_halves_in_one_blob')
    elif step.get('concat') and all(it['half'] == items[0]['half'] for it in items) \
            and len(set(it['key'] for it in items)) == len(items):
        # one blob holding several *different* transferable keys
        blob = b''.join(bytes(w.keys[it['key']][it['half']]) for it in items)
        args.append(blob)
        expect.append([(it['key'], it['half']) for it in items])
        ctx.probe('load_concat_blob')
    else:
        for it in items:
            args.append(_blob(w, it, ctx))
            expect.append([(it['key'], it['half'])])
    if fault:
        bad = _corrupt(fault['how'], w, ctx)
        # a corrupt item is only injected if PGPy's own loader does not turn it into some key
        # (lenient parsing of damaged packets is C08's business, not the keyring's)
        try:
            probe = None if (isinstance(bad, str) and bad.startswith(seams.SimFS.ROOT)) else w.pgpy.PGPKey.from_blob(bad)[0]
        except Exception:
            probe = None
        if probe is not None and probe.fingerprint is not None:
            fault = None
        else:
            at = min(fault['at'], len(args))
            args.insert(at, bad)
            expect.insert(at, None)
    cont = step.get('container', 'args')
    before = list(w.loaded)
    try:
        if cont == 'args':
            ret = kr.load(*args)
        elif cont == 'list':
            ret = kr.load(list(args))
        else:
            ret = kr.load(tuple(args))
        raised = None
    except Exception as e:       # noqa
        raised = e
        ret = None

    def apply(n):
        """model after the first n args were processed"""
        model = list(before)
        for a, ex in zip(args[:n], expect[:n]):
            if ex is None:
                continue
            for (kname, half) in ex:
                src = w.keys[kname][half]
                if a is src:
                    if not any(e.obj is src for e in model):
                        model.append(Entry(src, kname))
                    else:
                        ctx.probe('same_key_loaded_twice')
                else:
                    # a new object is created inside the keyring; identity unknown until selected
                    ent = Entry(src, kname)
                    ent.obj = _Unknown()
                    model.append(ent)
        return model

    if raised is None:
        if fault:
            # the corrupt item was tolerated (e.g. landed after everything): nothing to say
            pass
        w.loaded = apply(len(args))
        # return value: the fingerprints loaded during this operation
        want = set()
        for ex in expect:
            for (kname, half) in (ex or []):
                src = w.keys[kname][half]
                want.add(str(src.fingerprint))
                want.update(str(sk.fingerprint) for sk in src.subkeys.values())
        if not fault:
            got = set(str(f) for f in ret)
            ctx.checked()
            if got != want:
                ctx.viol('C19:load-return:mismatch', 'load() returned %d fingerprints, expected %d' % (len(got), len(want)))
    else:
        # a failing batch: items before the failing one are loaded, or nothing is (both are consistent states)
        ctx.fault('X2' if fault else 'load_raised')
        if fault and min(fault['at'], len(args)) > 0:
            ctx.probe('batch_failed_at_k>0')
        cands = [apply(n) for n in range(len(args), -1, -1)]
        real = set(str(f) for f in kr.fingerprints())
        chosen = None
        for m in cands:
            w.loaded = m
            if w.model_fps() == real and _model_len(w) == len(kr):
                chosen = m
                break
        if chosen is None:
            w.loaded = before
            ctx.viol('C19:failed-load:inconsistent',
                     'after a failing load (%s) the reported fingerprints match neither the prefix nor the prior state'
                     % type(raised).__name__)
    for e in w.loaded:
        if any((o is not e and o.fp == e.fp and o.pub != e.pub) for o in w.loaded):
            ctx.probe('pub_and_priv_both_loaded')
            break
    if w.ever_unloaded:
        ctx.probe('reload_after_unload')


class _Unknown(object):
    pass


def _do_unload(w, step, ctx):
    kr = w.kr
    if step['key'] not in w.keys:
        return
    by = step['by']
    k = w.keys[step['key']]
    target = None
    if by == 'obj':
        half = step['half'] if step['half'] != 'any' else 'priv'
        target = k[half]
        ents = [e for e in w.loaded if e.obj is target]
        if not ents:
            # unloading an object that is not loaded must be a no-op
            kr.unload(target)
            return
    else:
        fp = str(k['priv'].fingerprint)
        ident = {'fp': fp, 'keyid': fp[-16:], 'shortid': fp[-8:], 'spaced_fp': ' '.join(fp[i:i + 4] for i in range(0, 40, 4)),
                 'name': k['priv'].userids[0].name, 'email': k['priv'].userids[0].email or k['priv'].userids[0].name}[by]
        try:
            with kr.key(ident) as sel:
                target = sel
        except KeyError:
            return
        if by in ('name', 'email'):
            # several keys may carry the identifier and PGPy breaks creation-time ties by object
            # address; the history therefore unloads this step's own key (selected by fingerprint)
            if not any(e.fp == fp for e in w.loaded):
                return
            with kr.key(fp) as sel:
                target = sel
        if not target.is_primary:
            return
    # find the model entry that this object corresponds to
    ent = None
    for e in w.loaded:
        if e.obj is target:
            ent = e
            break
    if ent is None:
        for e in w.loaded:
            if isinstance(e.obj, _Unknown) and e.fp == str(target.fingerprint) and e.pub == target.is_public:
                ent = e
                break
    if ent is None:
        ctx.viol('C19:select:stale', 'keyring selected a %s key %s that the model does not hold as loaded'
                 % ('public' if target.is_public else 'private', str(target.fingerprint)[-8:]))
    shared = False
    for e in w.loaded:
        if e is not ent and (e.idents & ent.idents or e.fp == ent.fp):
            shared = True
    kr.unload(target)
    w.loaded = [e for e in w.loaded if e is not ent]
    w.ever_unloaded = True
    if shared:
        ctx.probe('unload_with_shared_alias')
        ctx.mark_nontrivial('shared-unload')


def _do_unload_subkey(w, step, ctx):
    kr = w.kr
    if step['key'] not in w.keys:
        return
    subs = [str(sk.fingerprint) for sk in w.keys[step['key']]['priv'].subkeys.values()]
    if not subs:
        return
    sfp = subs[step['sub'] % len(subs)]
    holders = [e for e in w.loaded if sfp in e.subfps]
    if not holders:
        return
    try:
        with kr.key(sfp) as sel:
            target = sel
    except KeyError:
        ctx.viol('C19:alias-lost:subkey-fingerprint', 'the fingerprint of a loaded subkey selects nothing')
        return
    # which model entry does the selected subkey object belong to?
    cands = [e for e in holders if not isinstance(e.obj, _Unknown) and any(sk is target for sk in e.obj.subkeys.values())]
    if not cands:
        # the selected subkey belongs to a key object the keyring made itself from a blob; those are interchangeable in the model
        # only as long as they are whole, so such a subkey is left alone
        return
    ent = cands[0]
    ctx.probe('subkey_unloaded_on_its_own')
    kr.unload(target)
    ent.subfps = [x for x in ent.subfps if x != sfp]
    w.ever_unloaded = True
    ctx.mark_nontrivial('subkey-unload')


def _do_select(w, step, ctx):
    kr = w.kr
    if step['key'] not in w.keys:
        return
    k = w.keys[step['key']]['priv']
    pgpy = w.pgpy
    loaded_fps = w.model_fps()
    if step['op'] == 'select_sig':
        sig = k.sign('select me')
        ident = sig
        want = {fp for fp in loaded_fps if fp[-16:] == sig.signer}
        ctx.probe('select_by_signature')
    else:
        enc = next((sk for sk in k.subkeys.values() if not sk.key_algorithm.can_sign), None)
        if enc is None:
            return
        msg = pgpy.PGPMessage.new('hello', compression=pgpy.constants.CompressionAlgorithm.Uncompressed)
        ident = k.pubkey.encrypt(msg)
        want = {fp for fp in loaded_fps if fp[-16:] in ident.encrypters}
        ctx.probe('select_by_message')
    ctx.checked()
    try:
        with kr.key(ident) as sel:
            got = sel
    except Exception:
        got = None
    if want and got is None:
        ctx.viol('C19:select-by-object:missed', '%s: the issuer/recipient key is loaded but was not selected' % step['op'])
    if got is not None and str(got.fingerprint) not in want:
        ctx.viol('C19:select-by-object:wrong', '%s selected %s which did not issue / cannot decrypt it'
                 % (step['op'], str(got.fingerprint)[-8:]))


def _model_len(w):
    # number of key objects (primaries and subkeys) held; unknown-identity entries are distinct objects
    n = 0
    seen = set()
    for e in w.loaded:
        if not isinstance(e.obj, _Unknown):
            if id(e.obj) in seen:
                continue
            seen.add(id(e.obj))
        n += 1 + len(e.subfps)
    return n


def _sweep(w, ctx, sid):
    """Full invariant check of the keyring against the model."""
    kr = w.kr
    ctx.checked()
    for keyhalf in ('any', 'public', 'private'):
        for keytype in ('any', 'primary', 'sub'):
            got = set(str(f) for f in kr.fingerprints(keyhalf=keyhalf, keytype=keytype))
            want = w.model_fps(keyhalf, keytype)
            if got != want:
                ctx.viol('C19:fingerprints:%s' % ('missing' if want - got else 'extra'),
                         'fingerprints(keyhalf=%s,keytype=%s): %d reported, %d expected (missing %s, extra %s)'
                         % (keyhalf, keytype, len(got), len(want), sorted(x[-8:] for x in want - got), sorted(x[-8:] for x in got - want)))
    n = _model_len(w)
    if len(kr) != n:
        ctx.viol('C19:len', 'len(keyring) = %d, model holds %d key objects' % (len(kr), n))
    # identifiers of loaded keys
    loaded_pairs = set((e.fp, e.pub) for e in w.loaded)
    loaded_sub = {}
    for e in w.loaded:
        for s in e.subfps:
            loaded_sub.setdefault(s, set()).add(e.pub)
    carriers = {}
    for e in w.loaded:
        for i in e.idents:
            carriers.setdefault(i, []).append(e)
    if max([len(v) for v in carriers.values()] or [0]) >= 3:
        ctx.probe('alias_shared_by_3')
    for e in w.loaded:
        for ident in _fp_idents(e.fp):
            _expect_selects(w, ctx, ident, lambda k, e=e: str(k.fingerprint) == e.fp and (e.fp, k.is_public) in loaded_pairs, 'fingerprint')
        for s in e.subfps:
            for ident in _fp_idents(s):
                _expect_selects(w, ctx, ident, lambda k, s=s: str(k.fingerprint) == s and k.is_public in loaded_sub[s], 'subkey-fingerprint')
    for ident, ents in carriers.items():
        def ok(k, ident=ident):
            if (str(k.fingerprint), k.is_public) not in loaded_pairs:
                return False
            return any(ident in (u.name, u.comment, u.email) for u in k.userids)
        _expect_selects(w, ctx, ident, ok, 'userid')
    # identifiers that belong only to unloaded keys
    for ident in sorted(w.all_uid_idents - set(carriers)):
        _expect_nothing(w, ctx, ident, 'userid')
    have = w.model_fps()
    for fp in sorted(set(w.all_fps) - have):
        for ident in _fp_idents(fp):
            _expect_nothing(w, ctx, ident, 'fingerprint')


def _expect_selects(w, ctx, ident, ok, kind):
    kr = w.kr
    ctx.checked()
    if ident not in kr:
        ctx.viol('C19:alias-lost:%s' % kind, 'identifier %r of a loaded key is not in the keyring' % ident)
    try:
        with kr.key(ident) as k:
            sel = k
    except KeyError:
        ctx.viol('C19:alias-lost:%s' % kind, 'identifier %r of a loaded key selects nothing' % ident)
        return
    if not ok(sel):
        ctx.viol('C19:alias-wrong:%s' % kind, 'identifier %r selected key %s (%s) which is not a loaded carrier of it'
                 % (ident, str(sel.fingerprint)[-8:], 'pub' if sel.is_public else 'priv'))


def _expect_nothing(w, ctx, ident, kind):
    kr = w.kr
    ctx.checked()
    if ident in kr:
        ctx.viol('C19:alias-stale:%s' % kind, 'identifier %r belongs only to unloaded keys but is still in the keyring' % ident)
    try:
        with kr.key(ident) as k:
            sel = k
    except KeyError:
        return
    ctx.viol('C19:alias-stale:%s' % kind, 'identifier %r belongs only to unloaded keys but selects %s' % (ident, str(sel.fingerprint)[-8:]))
