"""C08 - packet codec: own output re-parses byte-exactly; foreign input normalises once.

Partial claim (see DESIGN.md): the simulator contributes (a) a monitor over packets
that PGPy emits in generated histories (keys in all states, signatures, messages,
encrypted messages), each followed by drawn trailing octets; (b) a relay chain:
reference-peer packets of every tag, header format and length encoding pass through
three PGPy relays (parse -> serialise); (c) edit steps on parsed foreign objects
before re-serialising.  It does not reach the full quantifier over all field values."""
import copy

from .. import bridge, encworld, seams, world
from ..core import CallTimeout, watchdog
from ..ref import algo as ralgo, armor as rarmor, enc as renc, keys as rkeys, sigs as rsigs
from ..ref.wire import WireError, encode_packet, encode_subpacket, read_packet, split_packets, split_subpackets
from .c05 import gen_subpacket, make_ref_key, _sp_bytes

ID = 'C08'
RULE = ('cases are 4-10 steps: emit (a PGPy-made artifact whose packets are re-parsed one by one with trailing octets), relay (one '
        'reference-peer packet of a drawn tag / framing / content through three parse-serialise hops), edit (protect or extend a '
        'parsed foreign object, then export); a run is non-trivial when at least one foreign packet in a non-canonical framing '
        '(old format, 5-octet, partial) was accepted and relayed and one own artifact was re-parsed; distinct = distinct (tag, '
        'framing, content class) multisets')
TIERS = {'quick': {'runs': 3000, 'budget_s': 80}, 'thorough': {'runs': 150000, 'budget_s': 1500}}
PROBES = ('deprecated_rsa_algorithm_id', 'own_signature_long_subpacket', 'own_key_private', 'own_key_protected', 'own_signature', 'own_message', 'own_encrypted', 'relay_accepted', 'relay_rejected',
          'framing_old', 'framing_5octet', 'framing_partial', 'framing_partial_final5', 'framing_indeterminate', 'unknown_tag', 'unknown_version',
          'uid_invalid_utf8', 'uid_not_nfc', 'filename_non_ascii', 'secret_usage255', 'secret_gnu_dummy', 'secret_gnu_card_stub', 'nested_compressed', 'edit_protect_old_format',
          'edit_add_uid', 'edit_grow_uid', 'edit_grow_uid_old_format_past_two_octet_length', 'edit_reprotect_other_cipher', 'trust_odd_length', 'uattr_two_subpackets', 'uattr_image_header_other_version', 'uattr_image_header_other_length', 'uattr_three_images')
RELAY_KINDS = ['uid', 'uid', 'literal', 'literal', 'sig', 'sig', 'pubkey', 'pubsub', 'seckey', 'secsub', 'pkesk', 'skesk', 'ops', 'compressed',
               'sed', 'seipd', 'mdc', 'marker', 'trust', 'uattr', 'unknown_tag', 'unknown_version']


def generate(rng, tier):
    steps = []
    for i in range(rng.randint(4, 10 if tier == 'thorough' else 7)):
        sid = 's%d' % i
        r = rng.random()
        if r < 0.25:
            steps.append({'id': sid, 'op': 'emit', 'what': rng.choice(['key', 'key_protected', 'signature', 'message', 'encrypted', 'encrypted_pass']),
                          'alg': rng.choice(['ed25519', 'p256', 'p521', 'rsa2048' if rng.random() < 0.2 else 'ed25519', 'dsa2048' if rng.random() < 0.1 else 'p384']),
                          'trailing': bytes(rng.randrange(256) for _ in range(rng.choice([0, 1, 3, 17]))).hex(), 'msg': encworld.gen_message_spec(rng)})
        elif r < 0.9:
            kind = rng.choice(RELAY_KINDS)
            steps.append({'id': sid, 'op': 'relay', 'kind': kind, 'seed': rng.randrange(1 << 30),
                          'framing': rng.choice(['new', 'new', 'new2', 'new5', 'old', 'old2', 'old4', 'partial', 'partial', 'partial5', 'indeterminate']),
                          'size': rng.choice([0, 1, 5, 100, 191, 192, 600, 2000, 9000]),
                          'keyalg': rng.choice(['ed25519', 'p256', 'p384', 'p521', 'secp256k1', 'cv25519', 'ecdh_p256', 'rsa2048', 'dsa2048', 'elg2048', 'elg1024']),
                          'usage_octet': rng.choice([0, 254, 254, 255]), 's2k': rng.choice([0, 1, 3, 3]),
                          'nsub': rng.choice([0, 1, 2, 4]), 'trailing': bytes(rng.randrange(256) for _ in range(rng.choice([0, 2, 9]))).hex()})
        else:
            steps.append({'id': sid, 'op': 'edit', 'how': rng.choice(['protect_old_format', 'add_uid', 'reprotect_other_cipher', 'reprotect_other_cipher', 'grow_uid']), 'keyalg': rng.choice(['p521', 'p384', 'ed25519', 'rsa2048', 'p256']),
                          'seed': rng.randrange(1 << 30)})
    return {'config': {'start_us': 1_600_000_000_000_000}, 'steps': steps}


def simplify(case):
    for i, s in enumerate(case['steps']):
        if s['op'] == 'relay':
            for f, v in (('framing', 'new'), ('size', 5), ('nsub', 0), ('trailing', '')):
                if s.get(f) != v:
                    c = copy.deepcopy(case)
                    c['steps'][i][f] = v
                    yield c


# ---------------------------------------------------------------------------
def frame(tag, body, framing, ctx):
    n = len(body)
    if framing == 'old' and tag < 16:
        ctx.probe('framing_old')
        return encode_packet(tag, body, 'old')
    if framing == 'old2' and tag < 16 and n < 65536:
        ctx.probe('framing_old')
        return encode_packet(tag, body, 'old', 2)
    if framing == 'old4' and tag < 16:
        ctx.probe('framing_old')
        return encode_packet(tag, body, 'old', 4)
    if framing == 'indeterminate' and tag in (8, 9, 11):
        ctx.probe('framing_indeterminate')
        return encode_packet(tag, body, 'old', 0)
    if framing == 'new2' and 192 <= n < 8384:
        return encode_packet(tag, body, 'new', 2)
    if framing == 'new5':
        ctx.probe('framing_5octet')
        return encode_packet(tag, body, 'new', 5)
    if framing in ('partial', 'partial5') and tag in (8, 9, 11, 18) and n > 520:
        ctx.probe('framing_partial')
        chunks = [512] + ([256] if n > 800 else [])
        if framing == 'partial5':
            ctx.probe('framing_partial_final5')
            return encode_packet(tag, body, 'new', chunks=chunks, final_lenenc=5)
        return encode_packet(tag, body, 'new', chunks=chunks)
    return encode_packet(tag, body, 'new')


def sem(tag, body):
    """field values of a packet as the reference peer decodes them (framing-free, encoding-free)"""
    try:
        if tag == 2:
            s = rsigs.parse_sig(body)
            return ('sig', s.version, s.type, s.pkalg, s.halg, s.hashed, tuple((x.type, x.critical, x.body) for x in s.unhashed_subpackets()),
                    s.left16, tuple(s.mpis))
        if tag in (6, 14):
            k = rkeys.parse_pub(body)
            return ('pub', k.canonical_body(), body[k.publen:])
        if tag in (5, 7):
            k = rkeys.parse_sec(body)
            return ('sec', k.pub.canonical_body(), k.usage, k.cipher, k.s2k_type, k.s2k_hash, k.salt, k.count, k.gnu, k.iv, k.enc,
                    tuple(sorted(k.secret.items())) if k.secret else None)
        if tag == 1:
            p = renc.parse_pkesk(body)
            return ('pkesk', p.keyid, p.alg, tuple(p.mpis), p.point, p.wrapped)
        if tag == 3:
            s = renc.parse_skesk(body)
            return ('skesk', s.cipher, s.s2k_type, s.hash, s.salt, s.count, s.esk)
        if tag == 8:
            inner = renc.decompress(body)
            return ('comp', body[0], tuple(sem(p.tag, p.body) for p in split_packets(inner)))
        if tag == 11:
            l = renc.parse_literal(body)
            return ('lit', l.fmt, l.filename, l.mtime, l.data)
        if tag == 17:
            return ('uattr', tuple((x.type, x.body) for x in split_subpackets(body)))
    except (WireError, ralgo.AlgoError, Exception):
        pass
    return ('raw', tag, body)


def build_foreign(step, ctx, run_seed):
    """-> (tag, body) of one reference-peer packet"""
    import random as _r
    r = _r.Random(step['seed'])
    kind = step['kind']
    n = step['size']
    rnd = lambda k: r.randbytes(k)
    if kind == 'uid':
        q = r.random()
        if q < 0.5:
            return 13, ('User %d <u%d@example.org>' % (r.randrange(1000), n)).encode()
        if q < 0.65:
            return 13, 'Ünïcödé ☃ <x@example.org>'.encode('utf-8')
        if q < 0.8:
            # valid UTF-8 that is not in a composed normal form: decomposed accents, Angstrom and Ohm signs, a compatibility ideograph
            ctx.probe('uid_not_nfc')
            return 13, r.choice(['Jose\u0301 Nun\u0303ez <j@example.org>', '\u212bngstro\u0308m \u2126 <a@example.org>', '\uf900 \u1e9b\u0323 <c@example.org>']).encode('utf-8')
        ctx.probe('uid_invalid_utf8')
        return 13, b'Latin\xe9 \xff\xfe name'
    if kind == 'literal':
        fn = r.choice([b'', b'a.txt', 'résumé.txt'.encode('utf-8'), b'_CONSOLE', b'x' * 255])
        if any(b > 127 for b in fn):
            ctx.probe('filename_non_ascii')
        return 11, renc.build_literal(r.choice([b'b', b'b', b't', b'u', b'l', b'1', b'm', b'\xe9', b'\x80', b'\xff', b'\x00']), fn, r.choice([0, 1, 1_400_000_000, 2 ** 32 - 1]), rnd(n) if r.random() < 0.5 else b'text ' * (n // 5))
    if kind in ('sig',):
        salg = r.choice(['ed25519', 'ed25519', 'p256', 'p521', 'rsa2048', 'rsa2048:3', 'dsa2048'])
        body, alg, secret = make_ref_key(salg.split(':')[0], 1_500_000_000, b'', run_seed, label='c08sig' + salg[:3])
        if ':' in salg:
            # the deprecated RSA Sign-Only id, as some generators still write it
            body = body[:5] + bytes([int(salg.split(':')[1])]) + body[6:]
            ctx.probe('deprecated_rsa_algorithm_id')
        pub = rkeys.parse_pub(body)
        hashed = rsigs.sp_created(1_590_000_000) + b''.join(_sp_bytes(gen_subpacket(r)) for _ in range(step['nsub']))
        unhashed = rsigs.sp_issuer(pub.keyid) + b''.join(_sp_bytes(gen_subpacket(r)) for _ in range(step['nsub'] // 2))
        return 2, rsigs.sign(0x00, pub, secret, 8, hashed, unhashed, b'c08')
    if kind in ('pubkey', 'pubsub', 'seckey', 'secsub'):
        body, alg, secret = make_ref_key(step['keyalg'], r.choice([0, 1, 1_500_000_000, 2 ** 32 - 1]), b'', run_seed, label='c08k%d' % step['seed'])
        if step['keyalg'].startswith('rsa') and r.random() < 0.4:
            alg = r.choice([2, 3])
            body = body[:5] + bytes([alg]) + body[6:]
            ctx.probe('deprecated_rsa_algorithm_id')
        if kind == 'pubkey':
            return 6, body
        if kind == 'pubsub':
            return 14, body
        tag = 5 if kind == 'seckey' else 7
        if step['usage_octet'] == 0:
            return tag, rkeys.build_sec_body(body, alg, secret, None)
        if r.random() < 0.15:
            ctx.probe('secret_gnu_dummy')
            if r.random() < 0.5:
                ctx.probe('secret_gnu_card_stub')
                return tag, rkeys.build_gnu_dummy_body(body, rnd(16))
            return tag, rkeys.build_gnu_dummy_body(body)
        if step['usage_octet'] == 255:
            ctx.probe('secret_usage255')
        cid = r.choice([7, 9, 3, 2])
        return tag, rkeys.build_sec_body(body, alg, secret, {'usage': step['usage_octet'], 'cipher': cid, 's2k_type': step['s2k'], 'hash': 8,
                                                            'salt': rnd(8), 'count': 16, 'iv': rnd(ralgo.block_size(cid)), 'passphrase': 'c08'})
    if kind == 'pkesk':
        body, alg, secret = make_ref_key(r.choice(['cv25519', 'ecdh_p256', 'rsa2048']), 1_500_000_000, b'', run_seed, label='c08e%d' % (step['seed'] % 3))
        return 1, renc.build_pkesk(rkeys.parse_pub(body), 9, rnd(32), rnd(600))
    if kind == 'skesk':
        return 3, renc.build_skesk(r.choice([7, 9, 3]), step['s2k'], 8, 'pw', rnd(8), 16, (9, rnd(32)) if r.random() < 0.6 else None)
    if kind == 'ops':
        return 4, renc.build_ops(r.choice([0, 1]), 8, r.choice([1, 17, 19, 22]), rnd(8), r.choice([0, 1]))
    if kind == 'compressed':
        inner = encode_packet(11, renc.build_literal(b'b', b'in.bin', 5, rnd(n)))
        if r.random() < 0.3:
            ctx.probe('nested_compressed')
            inner = encode_packet(8, renc.compress(r.choice([1, 2]), inner))
        return 8, renc.compress(r.choice([0, 1, 2, 3]), inner)
    if kind == 'sed':
        return 9, rnd(max(n, 18))
    if kind == 'seipd':
        return 18, b'\x01' + rnd(max(n, 40))
    if kind == 'mdc':
        return 19, rnd(r.choice([20, 20, 20, 0, 19, 21, 46]))
    if kind == 'marker':
        return 10, b'PGP'
    if kind == 'trust':
        if r.random() < 0.5:
            return 12, rnd(2)
        ctx.probe('trust_odd_length')
        return 12, rnd(r.choice([1, 3, 5]))
    if kind == 'uattr':
        img = encode_subpacket(1, bytes([16, 0, 1, 1]) + bytes(12) + world.JPEG)
        q = r.random()
        if q < 0.15:
            # an image header of a later version (RFC 4880 5.12.1: the first two octets give the header length)
            ctx.probe('uattr_image_header_other_version')
            img = encode_subpacket(1, bytes([16, 0, 2, 1]) + bytes(12) + world.JPEG)
        elif q < 0.3:
            ctx.probe('uattr_image_header_other_length')
            img = encode_subpacket(1, bytes([20, 0, 1, 1]) + bytes(16) + world.JPEG)
        elif q < 0.4:
            ctx.probe('uattr_three_images')
            img = img + img + encode_subpacket(1, bytes([16, 0, 1, 1]) + bytes(12) + world.JPEG[:-1] + b'\x00')
        if r.random() < 0.3:
            ctx.probe('uattr_two_subpackets')
            img += encode_subpacket(r.choice([2, 100]), rnd(9))
        return 17, img
    if kind == 'unknown_tag':
        ctx.probe('unknown_tag')
        return r.choice([15, 16, 20, 21, 40, 60, 63]), rnd(n)
    if kind == 'unknown_version':
        ctx.probe('unknown_version')
        t = r.choice([2, 6, 1, 3, 4])
        return t, bytes([r.choice([5, 6, 9, 0, 0, 255, 1 if t != 1 else 9])]) + rnd(max(n, 12))
    return 13, b'fallback'


def check_own_packet(ctx, pgpy, raw, trailing, what):
    """(a): a packet PGPy emitted parses back consuming exactly its length and re-serialises identically"""
    buf = bytearray(raw + trailing)
    ctx.checked()
    try:
        with watchdog(30):
            pkt = pgpy.packet.Packet(buf)
    except CallTimeout:
        return
    except Exception as e:
        ctx.viol('C08:own-packet-rejected:%s' % what, 'PGPy cannot parse a packet it emitted itself (%s): %s: %s' % (what, type(e).__name__, e))
        return
    if bytes(buf) != trailing:
        ctx.viol('C08:own-packet-consumed-wrong:%s' % what, 'parsing an own %s packet left %d octets, %d followed it' % (what, len(buf), len(trailing)))
    try:
        out = bytes(pkt)
    except Exception as e:
        ctx.viol('C08:own-packet-unserialisable:%s:%s' % (what, type(e).__name__), 'an own %s packet, parsed back, cannot be serialised again: %s' % (what, e))
        return
    if out != raw:
        ctx.viol('C08:own-packet-changed:%s' % what, 'an own %s packet re-serialises to other octets (%d -> %d)' % (what, len(raw), len(out)))


def relay(ctx, pgpy, tag, body, wire, trailing, step):
    ctx.checked()
    buf = bytearray(wire + trailing)
    try:
        with watchdog(30):
            p1 = pgpy.packet.Packet(buf)
            out1 = bytes(p1)
    except CallTimeout:
        ctx.probe('pgpy_call_timeout')
        return False
    except Exception:
        ctx.probe('relay_rejected')
        return False
    ctx.probe('relay_accepted')
    kind = step['kind']
    if step['framing'] != 'indeterminate' and bytes(buf) != trailing:
        ctx.viol('C08:foreign-consumed-wrong:%s' % kind, 'parsing a foreign %s packet (%s framing) left %d octets, %d followed it'
                 % (kind, step['framing'], len(buf), len(trailing)))
    # header length = body length, and nothing else in the output
    try:
        rp, end = read_packet(out1, 0)
    except WireError as e:
        ctx.viol('C08:output-framing:%s' % kind, 're-serialised %s packet is not a well-framed packet: %s' % (kind, e))
        return True
    if end != len(out1):
        ctx.viol('C08:output-framing:%s' % kind, 're-serialised %s packet: header length covers %d of %d octets' % (kind, end, len(out1)))
    if rp.tag != tag:
        ctx.viol('C08:tag-changed:%s' % kind, 'tag %d became %d' % (tag, rp.tag))
    want_body = body if step['framing'] != 'indeterminate' else body + trailing
    if sem(tag, want_body) != sem(rp.tag, rp.body):
        ctx.viol('C08:field-values-changed:%s' % kind, 'a relayed %s packet (%s framing) carries other field values than the original (%d -> %d body octets)'
                 % (kind, step['framing'], len(want_body), len(rp.body)))
    # PGPy accepts its output again and reaches a fixed point
    try:
        b2 = bytearray(out1)
        p2 = pgpy.packet.Packet(b2)
        out2 = bytes(p2)
        p3 = pgpy.packet.Packet(bytearray(out2))
        out3 = bytes(p3)
    except Exception as e:
        ctx.viol('C08:output-rejected:%s:%s' % (kind, type(e).__name__), 'PGPy rejects its own re-serialisation of a foreign %s packet: %s' % (kind, e))
        return True
    if len(b2) != 0:
        ctx.viol('C08:output-consumed-wrong:%s' % kind, 're-parsing the output left %d octets' % len(b2))
    if out2 != out1 or out3 != out2:
        ctx.viol('C08:not-a-fixed-point:%s' % kind, 'a second parse/serialise pass changes the %s packet again (%d -> %d -> %d octets)'
                 % (kind, len(out1), len(out2), len(out3)))
    # a copy of the parsed packet is the same packet
    ctx.checked()
    try:
        outc = bytes(copy.copy(p1))
    except Exception as e:
        ctx.viol('C08:copy-raised:%s:%s' % (kind, type(e).__name__), 'copy.copy of a parsed foreign %s packet cannot be serialised: %s' % (kind, e))
        return True
    if outc != out1:
        ctx.viol('C08:copy-differs:%s' % kind, 'copy.copy of a parsed foreign %s packet serialises to other octets (%d vs %d)' % (kind, len(outc), len(out1)))
    return True


def execute(case, ctx):
    import pgpy
    import pgpy.packet
    C = pgpy.constants
    seams.clock().set(case['config']['start_us'])
    shapes = []
    own = foreign_nc = False
    for st in case['steps']:
        ctx.step = st['id']
        ctx.steps_done += 1
        seams.rnd().set_step(st['id'])
        if st['op'] == 'emit':
            trailing = bytes.fromhex(st['trailing'])
            key = world.build_key({'alg': st['alg'], 'uids': [['Emitter', 'c', 'e@example.org'], {'image': True}], 'usage': 'CS',
                                   'subkeys': [{'alg': 'cv25519', 'usage': 'E'}, {'alg': 'ed25519', 'usage': 'S'}]}, 'c08' + st['id'])
            what = st['what']
            if what == 'key':
                obj, label = key, 'private-key'
                ctx.probe('own_key_private')
            elif what == 'key_protected':
                key.protect('c08 pw', C.SymmetricKeyAlgorithm.AES256, C.HashAlgorithm.SHA256)
                obj, label = key, 'protected-key'
                ctx.probe('own_key_protected')
            elif what == 'signature':
                long_ = int(st.get('trailing', '') != '') * (9000 if len(st.get('trailing', '')) > 4 else 200)
                obj, label = key.sign('c08', notation={'n@example.org': 'v' + 'w' * long_}, policy_uri='http://x/' + 'p' * (long_ // 40)), 'signature'
                if long_ >= 8384:
                    ctx.probe('own_signature_long_subpacket')
                ctx.probe('own_signature')
            else:
                msg, _ = encworld.make_message(pgpy, st['msg'])
                msg |= key.sign(msg)
                if what == 'encrypted':
                    msg = key.pubkey.encrypt(msg, cipher=C.SymmetricKeyAlgorithm.AES128)
                    ctx.probe('own_encrypted')
                    label = 'encrypted-message'
                elif what == 'encrypted_pass':
                    msg = msg.encrypt('c08 pw', cipher=C.SymmetricKeyAlgorithm.AES256)
                    ctx.probe('own_encrypted')
                    label = 'passphrase-encrypted-message'
                else:
                    ctx.probe('own_message')
                    label = 'message'
                obj = msg
            data = bytes(obj)
            # a copy of the object is the same object as far as its octets go
            ctx.checked()
            try:
                cdata = bytes(copy.copy(obj))
            except Exception as e:
                cdata = None
                ctx.viol('C08:copy-export-raised:%s' % label, 'copy.copy of an own %s cannot be exported: %s: %s' % (label, type(e).__name__, e))
            if cdata is not None and cdata != data:
                ctx.viol('C08:copy-export-differs:%s' % label, 'copy.copy of an own %s exports other octets than the object (%d vs %d)'
                         % (label, len(cdata), len(data)))
            try:
                pk = split_packets(data)
            except WireError as e:
                ctx.viol('C08:own-export-misframed:%s' % label, 'the reference peer cannot split an own %s export: %s' % (label, e))
                continue
            for p in pk:
                check_own_packet(ctx, pgpy, p.raw, trailing, '%s/tag%d' % (label, p.tag))
                if p.tag == 8:
                    for q in split_packets(renc.decompress(p.body)):
                        check_own_packet(ctx, pgpy, q.raw, trailing, '%s/inner-tag%d' % (label, q.tag))
            own = True
            shapes.append('emit:' + what)
        elif st['op'] == 'relay':
            try:
                tag, body = build_foreign(st, ctx, case['run_seed'])
                wire = frame(tag, body, st['framing'], ctx)
                if st['framing'] == 'indeterminate' and not (wire[0] & 0x40 == 0 and wire[0] & 3 == 3):
                    st = dict(st, framing='new')       # indeterminate length only exists for tags 8, 9, 11
            except (WireError, rkeys.KeyError_, KeyError, ValueError):
                continue
            # an indeterminate-length packet extends to the end of the data: nothing can follow it
            trailing = bytes.fromhex(st['trailing']) if st['framing'] != 'indeterminate' else b''
            ok = relay(ctx, pgpy, tag, body, wire, trailing, st)
            if ok and (wire[0] & 0x40 == 0 or st['framing'] in ('new5', 'partial', 'partial5')):
                foreign_nc = True
            shapes.append('relay:%s:%s' % (st['kind'], st['framing']))
        elif st['op'] == 'edit':
            _edit(ctx, pgpy, st, case)
            shapes.append('edit:' + st['how'])
        ctx.event(st['id'], st['op'], st.get('kind', st.get('what', st.get('how'))), ctx.oracle_evals)
    if own and foreign_nc:
        ctx.mark_nontrivial('|'.join(sorted(shapes)))


def _grow_uid(ctx, pgpy, st):
    """A user id packet read under a drawn header form, its text replaced by one of another size (across the 192 / 256 / 8384 /
    65536 boundaries of the length encodings), header length recomputed: the packet written then frames exactly its body."""
    from pgpy.packet import Packet
    import random as _r
    r = _r.Random(st['seed'])
    form, lol = r.choice([('old', 1), ('old', 1), ('old', 2), ('old', 2), ('old', 4), ('new', None), ('new', 2), ('new', 5)])
    n = r.choice([0, 10, 191, 192, 255, 256, 300, 8383, 8384, 65535, 65536, 70000])
    ctx.probe('edit_grow_uid')
    if form == 'old' and lol < 4 and n >= 65536:
        ctx.probe('edit_grow_uid_old_format_past_two_octet_length')
    trailer = b'\xb4\x03abc'
    ctx.checked()
    src = encode_packet(13, b'Alice' if (form, lol) != ('new', 2) else b'Alice' * 40, form, lol)
    try:
        pkt = Packet(bytearray(src))
        pkt.uid = chr(0x41 + n % 26) * n
        pkt.update_hlen()
        out = bytes(pkt.__bytearray__())
    except Exception as e:
        ctx.viol('C08:own-packet-unserialisable:grow_uid:%s' % type(e).__name__, 'a user id packet (%s header) edited to %d octets cannot be written: %s' % (form, n, e))
        return
    try:
        pk = split_packets(out + trailer)
    except WireError as e:
        pk = None
    if pk is None or len(pk) != 2 or pk[0].tag != 13 or len(pk[0].body) != n or pk[1].raw != trailer:
        ctx.viol('C08:edited-export-misframed:grow_uid', 'a user id packet read from %s-format header (length of length %s) and edited to %d octets is '
                 'written as %d octets that do not frame that body' % (form, lol, n, len(out)))
        return
    buf = bytearray(out + trailer)
    try:
        again = Packet(buf)
        out2 = bytes(again.__bytearray__())
    except Exception as e:
        ctx.viol('C08:edited-export-unreadable:grow_uid', 'PGPy cannot re-read the edited user id packet: %s: %s' % (type(e).__name__, e))
        return
    if bytes(buf) != trailer:
        ctx.viol('C08:edited-export-misframed:grow_uid:reparse', 're-reading the edited user id packet leaves %d octets instead of the %d that follow it' % (len(buf), len(trailer)))
    if out2 != out or getattr(again, 'uid', None) != pkt.uid:
        ctx.viol('C08:edited-export-not-fixed-point:grow_uid', 'the edited user id packet (%d octets) is not a fixed point of parse/serialise' % n)


def _edit(ctx, pgpy, st, case):
    C = pgpy.constants
    if st['how'] == 'grow_uid':
        return _grow_uid(ctx, pgpy, st)
    body, alg, secret = make_ref_key(st['keyalg'], 1_500_000_000, b'', case['run_seed'], label='c08edit%d' % st['seed'])
    pub = rkeys.parse_pub(body)
    uid = b'Edited <ed@example.org>'
    tkb = bridge.build_ref_tkey(body, alg, secret, uid, 1_500_000_000, secret_export=True)
    # old-format headers with the narrowest length field that fits
    old = b''.join(encode_packet(p.tag, p.body, 'old') for p in split_packets(tkb))
    ctx.checked()
    try:
        k = pgpy.PGPKey.from_blob(old)[0]
    except Exception as e:
        ctx.viol('C08:foreign-key-unreadable:%s' % type(e).__name__, 'PGPy cannot load a reference-peer secret key in old-format framing: %s' % e)
        return
    try:
        if st['how'] == 'protect_old_format':
            ctx.probe('edit_protect_old_format')
            k.protect('edited', C.SymmetricKeyAlgorithm.AES256, C.HashAlgorithm.SHA256)
        elif st['how'] == 'reprotect_other_cipher':
            # a key protected by another producer (another cipher block size, usage 255, simple or salted S2K), unlocked and
            # protected anew: the protected part changes size
            ctx.probe('edit_reprotect_other_cipher')
            import random as _r
            r = _r.Random(st['seed'])
            cid = r.choice([3, 2, 7, 9])
            prot = {'usage': r.choice([254, 254, 255]), 'cipher': cid, 's2k_type': r.choice([0, 1, 3, 3]), 'hash': 8, 'salt': r.randbytes(8), 'count': 16,
                    'iv': r.randbytes(ralgo.block_size(cid)), 'passphrase': 'first'}
            tk2 = bridge.build_ref_tkey(body, alg, secret, uid, 1_500_000_000, secret_export=True, protect=prot)
            k = pgpy.PGPKey.from_blob(tk2)[0]
            with k.unlock('first'):
                k.protect('second', C.SymmetricKeyAlgorithm(r.choice([9, 7, 3, 2, 4])), C.HashAlgorithm.SHA256)
        else:
            ctx.probe('edit_add_uid')
            k.add_uid(pgpy.PGPUID.new('Added Later ' + 'x' * 200, email='al@example.org'), usage={C.KeyFlags.Certify})
        out = bytes(k)
    except Exception as e:
        ctx.event(st['id'], 'edit', 'raised', type(e).__name__)
        return
    try:
        pk = split_packets(out)
    except WireError as e:
        ctx.viol('C08:edited-export-misframed:%s' % st['how'],
                 'after %s of a key read from old-format headers the export is not a well-framed packet sequence: %s' % (st['how'], e))
        return
    try:
        back = pgpy.PGPKey.from_blob(out)[0]
        again = bytes(back)
    except Exception as e:
        ctx.viol('C08:edited-export-unreadable:%s' % st['how'], 'PGPy cannot re-import its export after %s: %s: %s' % (st['how'], type(e).__name__, e))
        return
    if again != out:
        ctx.viol('C08:edited-export-not-fixed-point:%s' % st['how'], 're-import of the edited key exports other octets (%d -> %d)' % (len(out), len(again)))
    if str(back.fingerprint) != pub.fingerprint.hex().upper():
        ctx.viol('C08:edited-fingerprint', 'fingerprint changed by %s' % st['how'])
