"""C15 - key-management histories keep a key self-consistent.

The full key-management step set applied in any order, interleaved across 2-3
keys, under a clock that is usually frozen, sometimes moves by a fraction of a
second (lost on the wire), sometimes jumps or runs backwards; the public twin held
since before a change or collected and re-derived (L1); periodic export/import.
After every step: every self-signature / binding (with embedded cross-signature
for signing subkeys) / revocation verifies under the public half (PGPy and the
reference peer); each identity's effective self-signature is the model's most
recent one; removed identities are gone; revocations are reported for exactly the
revoked component; the public twin reports the same."""
import copy

from .. import bridge, keyworld, seams
from ..ref import sigs as rsigs, tkey as rtkey
from ..ref.wire import WireError

ID = 'C15'
RULE = ('cases are key-management histories of 8-40 steps over 2-3 keys; a run is non-trivial when an identity held at least two '
        'self-signatures (so that "most recent" had to be decided), or a twin was held across a change, and the per-step oracle '
        'set ran; distinct = distinct step-kind sequences')
TIERS = {'quick': {'runs': 2500, 'budget_s': 100}, 'thorough': {'runs': 100000, 'budget_s': 1500}}
PROBES = ('two_selfsigs_same_second', 'two_selfsigs_subsecond', 'selfsig_after_hop_same_second', 'clock_backwards', 'twin_held', 'twin_collected',
          'twin_compared_held', 'twin_compared_fresh', 'uid_removed', 'uid_readded', 'subkey_revoked', 'key_revoked', 'uid_revoked',
          'signing_subkey_crosssig', 'protected_ops', 'hop', 'subkey_adopted_by_new_primary')
WEIGHTS = {'tick': 2.5, 'recertify': 3.0, 'add_uid': 1.5, 'del_uid': 1.2, 'derive_pub': 1.5, 'drop_pub': 0.8, 'export_import': 1.0,
           'certify_other': 0.8, 'direct_other': 0.4, 'copy_key': 0.5, 'protect': 0.5, 'rebind_subkey': 1.5, 'add_subkey': 1.5, 'adopt_subkey': 0.9}


def generate(rng, tier):
    keys = keyworld.gen_universe(rng)
    knames = sorted(keys)
    n = rng.randint(8, 40 if tier == 'thorough' else 20)
    steps = [keyworld.gen_step(rng, 's%d' % i, knames, WEIGHTS) for i in range(n)]
    # most hops are private-half hops so that histories go on
    for s in steps:
        if s['op'] == 'export_import' and rng.random() < 0.8:
            s['half'] = 'priv'
    return {'config': {'keys': keys, 'start_us': 1_600_000_000_000_000 + rng.choice([0, 400_000, 999_999])}, 'steps': steps}


def simplify(case):
    for i, s in enumerate(case['steps']):
        for f in ('hashes', 'ciphers', 'compression', 'key_expiration_s', 'trust', 'perturb', 'primary'):
            if s.get(f):
                c = copy.deepcopy(case)
                c['steps'][i][f] = None if f != 'perturb' else []
                yield c
    for k in sorted(case['config']['keys']):
        if case['config']['keys'][k]['alg'] != 'ed25519':
            c = copy.deepcopy(case)
            c['config']['keys'][k]['alg'] = 'ed25519'
            yield c


def _body(pkt):
    from ..ref.wire import split_packets
    return split_packets(pkt)[0].body


def _uid_octets(u):
    return ('uid', keyworld.uid_octets(u)) if u.is_uid else ('uattr', bytes(u.image))


def check_object(ctx, what, obj, mk, sigp='C15', twin=False):
    """One PGPKey object (private key or a public twin) against the model."""
    ctx.checked()
    live = {(u.kind, u.octets): u for u in mk.live_uids()}
    have = {}
    for u in list(obj.userids) + list(obj.userattributes):
        have[_uid_octets(u)] = u
    tag = 'twin' if twin else 'key'
    for k in live:
        if k not in have:
            ctx.viol('%s:%s-identity-missing:%s' % (sigp, tag, k[0]), '%s: an identity the key holds is not reported' % what)
    for k in have:
        if k not in live:
            ctx.viol('%s:%s-removed-identity-present:%s' % (sigp, tag, k[0]), '%s: an identity that was removed (or never added) still appears' % what)
    for k, mu in live.items():
        u = have[k]
        # PGPy's selfsig is the most recent signature the key itself issued on the identity, revocations included
        want = mu.latest_self(mk.name)
        got = u.selfsig
        if want is None:
            continue
        if got is None:
            ctx.viol('%s:%s-selfsig-none' % (sigp, tag), '%s: an identity with %d self-signature(s) reports none' % (what, len(mu.selfsigs())))
        if _body(bytes(got)) != _body(want.packet):       # framing of a packet may change on a hop, its body may not
            # which one did it pick?
            ranks = sorted(mu.own_sigs(mk.name), key=keyworld.SigRec.rank)
            pos = [i for i, s in enumerate(ranks) if _body(s.packet) == _body(bytes(got))]
            ctx.viol('%s:%s-selfsig-not-most-recent' % (sigp, tag),
                     '%s: the effective self-signature of an identity is not its most recent one (picked #%s of %d in age order)'
                     % (what, pos[0] + 1 if pos else '?', len(ranks)))
        if bool(u.is_primary) != bool(want.primary):
            ctx.viol('%s:%s-primary-flag' % (sigp, tag), '%s: is_primary=%s but the most recent self-signature says %s' % (what, u.is_primary, want.primary))
    # subkeys
    want_subs = {s.fp: s for s in mk.subs}
    have_subs = {bytes.fromhex(str(sk.fingerprint)): sk for sk in obj.subkeys.values()}
    if set(want_subs) != set(have_subs):
        ctx.viol('%s:%s-subkeys-differ' % (sigp, tag), '%s: reports %d subkeys, the key has %d' % (what, len(have_subs), len(want_subs)))
    for fp, ms in want_subs.items():
        sk = have_subs[fp]
        revoked = any(s.kind == 'rev' for s in ms.sigs)
        got = bool(list(sk.revocation_signatures))
        if got != revoked:
            ctx.viol('%s:%s-subkey-revocation-report' % (sigp, tag), '%s: subkey revocation reported=%s, revoked=%s' % (what, got, revoked))
    got = bool(list(obj.revocation_signatures))
    if got != mk.revoked:
        ctx.viol('%s:%s-key-revocation-report' % (sigp, tag), '%s: key revocation reported=%s, revoked=%s' % (what, got, mk.revoked))
    # key expiry: only when every identity's most recent self-signature agrees
    exps = set(mu.latest_self(mk.name).key_exp_s for mu in live.values() if mu.kind == 'uid' and mu.latest_self(mk.name) is not None)
    if len(exps) == 1:
        e = exps.pop()
        ea = obj.expires_at
        if (e is None) != (ea is None):
            ctx.viol('%s:%s-expires-at' % (sigp, tag), '%s: expires_at=%s but the identities\' most recent self-signatures say %s' % (what, ea, e))
        elif e is not None and int((ea - obj.created).total_seconds()) != e:
            ctx.viol('%s:%s-expires-at' % (sigp, tag), '%s: expires_at is %ss after creation, self-signatures say %ss' % (what, int((ea - obj.created).total_seconds()), e))


def check_signatures(ctx, what, obj, mk, h):
    """every self-signature / binding / revocation verifies under the public half"""
    ctx.checked()
    raw = bytes(obj)
    try:
        tk = bridge.ref_tkey(raw)
    except WireError as e:
        ctx.viol('C15:export-unreadable', '%s: the reference peer cannot parse the export: %s' % (what, e))
        return
    res = rtkey.check_self_sigs(tk)
    bad = [r for r in res if not r[2]]
    if bad:
        ctx.viol('C15:selfsig-invalid:ref', '%s: %d self-signature(s) do not verify under the reference peer (%s)' % (what, len(bad), bad[0][3]))
    # signing-capable subkeys carry a valid embedded primary-key binding
    for c in tk.subkeys:
        ms = [s for s in mk.subs if s.fp == c.key.fingerprint]
        if not ms or c.key.alg in (18, 16, 2):
            continue
        for b in c.sigs:
            sg = rsigs.parse_sig(b)
            if sg.type == 0x18 and sg.issuer == tk.pub.keyid:
                if not sg.sub(rsigs.SP_EMBEDDED):
                    ctx.viol('C15:crosssig-missing', '%s: the binding of a signing-capable subkey carries no embedded primary-key binding' % what)
                ctx.probe('signing_subkey_crosssig')
    pub = obj if obj.is_public else obj.pubkey
    try:
        v = pub.verify(obj)
        if not v:
            ctx.viol('C15:selfsig-invalid:pgpy', '%s: PGPy does not verify the key\'s own signatures (%d bad)' % (what, len(list(v.bad_signatures))))
    except Exception as e:
        if 'No signatures to verify' not in str(e):
            ctx.viol('C15:verify-raises:%s' % type(e).__name__, '%s: PGPKey.verify(key) raises: %s' % (what, e))


def execute(case, ctx):
    cfg = case['config']
    h = keyworld.KeyHistory(cfg['keys'], ctx)
    seams.clock().set(cfg.get('start_us', 1_600_000_000_000_000))
    kinds = []
    interesting = False
    removed_once = {}
    for step in case['steps']:
        ctx.step = step['id']
        ctx.steps_done += 1
        seams.rnd().set_step(step['id'])
        name = step.get('key')
        held_before = name in h.held_pub
        out = h.apply(step)
        kinds.append(step['op'])
        ctx.event(step['id'], step['op'], name, out)
        if h.ghosts:
            # a key that was copied, and its living public twin, keep reflecting each other: key management on the copy is the
            # copy's business
            ctx.checked()
            for msg in h.ghost_violations():
                ctx.viol('C15:twin-of-copied-key-out-of-step', msg)
        if step['op'] == 'tick':
            if step['delta_us'] < 0:
                ctx.probe('clock_backwards')
            continue
        if step['op'] == 'export_import':
            ctx.probe('hop')
        # the keys this step may have touched
        touched = {name}
        if step['op'] in ('certify_other', 'direct_other'):
            touched.add(step.get('other'))
        for n in sorted(x for x in touched if x in h.priv):
            k, mk = h.priv[n], h.model[n]
            if mk.passphrase is not None:
                ctx.probe('protected_ops')
            check_object(ctx, 'key %s after %s' % (n, step['op']), k, mk)
            check_signatures(ctx, 'key %s after %s' % (n, step['op']), k, mk, h)
            _probes(ctx, mk)
            if any(len(u.selfsigs()) >= 2 for u in mk.live_uids()):
                interesting = True
            if not k.is_public:
                if n in h.held_pub:
                    ctx.probe('twin_compared_held')
                    if held_before:
                        interesting = True
                    check_object(ctx, 'public twin of %s derived before %s' % (n, step['op']), h.held_pub[n], mk, twin=True)
                else:
                    ctx.probe('twin_compared_fresh')
                    check_object(ctx, 'freshly derived public twin of %s after %s' % (n, step['op']), k.pubkey, mk, twin=True)
    if interesting:
        ctx.mark_nontrivial('h')


def _probes(ctx, mk):
    for u in mk.uids:
        if u.removed:
            ctx.probe('uid_removed')
        ss = u.selfsigs()
        secs = [s.created_us // 1_000_000 for s in ss]
        if len(secs) != len(set(secs)):
            if len(set(s.created_us for s in ss)) == len(ss):
                ctx.probe('two_selfsigs_subsecond')
            else:
                ctx.probe('two_selfsigs_same_second')
        if any(s.kind == 'rev' for s in u.sigs):
            ctx.probe('uid_revoked')
    if mk.revoked:
        ctx.probe('key_revoked')
    if any(s.kind == 'rev' for sk in mk.subs for s in sk.sigs):
        ctx.probe('subkey_revoked')
