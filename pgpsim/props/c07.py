"""C07 - public export never carries or exercises secret material.

Key-management histories (keyworld) in which, at arbitrary points, the public
counterpart is derived, held across later additions, dropped and collected (L1),
and exported binary and armored - from private keys that are unprotected,
protected-locked and protected-unlocked (cleartext secrets in memory).  Oracles:
reference-peer tag walk of the export (only tags 6, 14, 13, 17, 2), no octet
string of any secret integer in it, same fingerprint / identities / subkeys /
exportable signatures as the private key's own export filtered to public form by
the reference peer, and private operations on public objects refused."""
import copy

from .. import bridge, keyworld, seams
from ..ref import armor as rarmor, keys as rkeys, tkey as rtkey
from ..ref.wire import WireError, split_packets
from .c06 import _secrets_from_export

ID = 'C07'
RULE = ('cases are key-management histories of 6-24 steps with public-twin derivation points; a run is non-trivial when a public '
        'twin derived before a later structural change (identity, subkey, signature, protection) was exported and compared, or a '
        'twin of an unlocked protected key was exported; distinct = distinct step-kind sequences')
TIERS = {'quick': {'runs': 3000, 'budget_s': 90}, 'thorough': {'runs': 120000, 'budget_s': 1500}}
PROBES = ('ghost_of_copied_key_kept', 'twin_held', 'twin_collected', 'held_twin_after_add_subkey', 'held_twin_after_add_uid', 'twin_of_unlocked_protected_key',
          'twin_of_locked_key', 'private_op_refused', 'protect_on_public_noop', 'loaded_public_key_ops', 'armored_export_scanned')
WEIGHTS = {'derive_pub': 3.0, 'drop_pub': 1.0, 'add_subkey': 2.0, 'add_uid': 1.5, 'add_uattr': 0.8, 'protect': 1.2, 'tick': 0.8,
           'export_import': 0.6, 'copy_key': 0.4, 'recertify': 1.0, 'certify_other': 1.0, 'direct_other': 0.5}


def generate(rng, tier):
    keys = keyworld.gen_universe(rng)
    knames = sorted(keys)
    n = rng.randint(6, 24 if tier == 'thorough' else 14)
    steps = [keyworld.gen_step(rng, 's%d' % i, knames, WEIGHTS) for i in range(n)]
    for s in steps:
        if s['op'] == 'export_import':
            s['half'] = 'priv'
        s['unlocked_export'] = rng.random() < 0.4
    return {'config': {'keys': keys, 'start_us': 1_600_000_000_000_000}, 'steps': steps}


def simplify(case):
    for i, s in enumerate(case['steps']):
        for f in ('hashes', 'ciphers', 'compression', 'key_expiration_s', 'trust', 'perturb'):
            if s.get(f):
                c = copy.deepcopy(case)
                c['steps'][i][f] = None if f != 'perturb' else []
                yield c
    for k in sorted(case['config']['keys']):
        if case['config']['keys'][k]['alg'] != 'ed25519':
            c = copy.deepcopy(case)
            c['config']['keys'][k]['alg'] = 'ed25519'
            yield c


class Secrets(object):
    def __init__(self):
        self.by_key = {}

    def add(self, name, obj):
        try:
            for fp, alg, d in _secrets_from_export(bytes(obj)):
                for v in d.values():
                    if v.bit_length() >= 120:
                        self.by_key.setdefault(name, set()).add(v.to_bytes((v.bit_length() + 7) // 8, 'big'))
        except Exception:
            pass


def check_public(ctx, what, pub, priv, secrets, sigp='C07'):
    ctx.checked()
    for form in ('binary', 'armored'):
        try:
            data = bytes(pub) if form == 'binary' else rarmor.dearmor(str(pub)).payload
        except Exception as e:
            ctx.viol('%s:export-fails:%s' % (sigp, type(e).__name__), '%s: exporting the public key (%s) raises: %s' % (what, form, e))
            return
        if form == 'armored':
            ctx.probe('armored_export_scanned')
            blk = rarmor.dearmor(str(pub))
            if blk.label != 'PUBLIC KEY BLOCK':
                ctx.viol('%s:armor-label' % sigp, '%s: public export is labelled %r' % (what, blk.label))
        try:
            tags = [p.tag for p in split_packets(data)]
        except WireError as e:
            ctx.viol('%s:export-unparsable' % sigp, '%s: %s' % (what, e))
            return
        bad = sorted(set(t for t in tags if t not in (6, 14, 13, 17, 2)))
        if bad:
            ctx.viol('%s:non-public-packet:tag%d' % (sigp, bad[0]), '%s: the %s public export contains packet tag(s) %s' % (what, form, bad))
        for s in secrets:
            if s in data:
                ctx.viol('%s:secret-in-public-export' % sigp, '%s: the %s public export contains the octets of a secret integer (%d octets)' % (what, form, len(s)))
    # same fingerprint, identities, subkeys, exportable signatures as the private key at this moment
    want_tk, want = keyworld.observed_components(rtkey.public_form(bytes(priv)))
    got_tk, got = keyworld.observed_components(bytes(pub))
    if got_tk.pub.fingerprint != want_tk.pub.fingerprint or got_tk.pub.body != want_tk.pub.body:
        ctx.viol('%s:public-material-differs' % sigp, '%s: primary public key material / fingerprint differs from the private key\'s' % what)
    if str(pub.fingerprint) != str(priv.fingerprint):
        ctx.viol('%s:fingerprint-differs' % sigp, '%s: fingerprint attribute differs' % what)
    for comp in sorted(set(want) | set(got), key=repr):
        kind = comp if isinstance(comp, str) else comp[0]
        if comp not in got:
            ctx.viol('%s:component-missing:%s' % (sigp, kind), '%s: the public key lacks a %s component the private key has' % (what, kind))
        elif comp not in want:
            ctx.viol('%s:component-extra:%s' % (sigp, kind), '%s: the public key has a %s component the private key does not export' % (what, kind))
        elif keyworld.norm_packets(want[comp]) != keyworld.norm_packets(got[comp]):
            ctx.viol('%s:signatures-differ:%s' % (sigp, kind), '%s: the %s component carries %d signatures on the public key, %d on the private key\'s export'
                     % (what, kind, len(got[comp]), len(want[comp])))
    for c in want_tk.subkeys:
        g = [x for x in got_tk.subkeys if x.key.fingerprint == c.key.fingerprint]
        if g and g[0].key.body != c.key.body:
            ctx.viol('%s:public-material-differs' % sigp, '%s: subkey public material differs' % what)


def refuses_private_ops(ctx, what, pgpy, pub, sigp='C07'):
    C = pgpy.constants
    ops = []
    ops.append(('sign', lambda: pub.sign('x')))
    if pub.userids:
        ops.append(('certify', lambda: pub.certify(pub.userids[0], C.SignatureType.Generic_Cert)))
        ops.append(('revoke', lambda: pub.revoke(pub.userids[0])))
    ops.append(('revoke-key', lambda: pub.revoke(pub)))
    subs = list(pub.subkeys.values())
    if subs:
        ops.append(('bind', lambda: pub.bind(subs[0], usage={C.KeyFlags.EncryptCommunications})))
    msg = pgpy.PGPMessage.new(b'for nobody', compression=C.CompressionAlgorithm.Uncompressed)
    enc = None
    try:
        enc = pub.encrypt(msg, cipher=C.SymmetricKeyAlgorithm.AES128)
    except Exception:
        pass
    if enc is not None:
        ops.append(('decrypt', lambda: pub.decrypt(enc)))
    for name, fn in ops:
        ctx.checked()
        try:
            fn()
        except Exception:
            ctx.probe('private_op_refused')
            continue
        ctx.viol('%s:private-op-on-public:%s' % (sigp, name), '%s: %s() on an object that holds only public material did not refuse' % (what, name))
    # protect() on a public key is a refused no-op
    before = bytes(pub)
    try:
        pub.protect('pw', C.SymmetricKeyAlgorithm.AES128, C.HashAlgorithm.SHA256)
    except Exception:
        pass
    ctx.probe('protect_on_public_noop')
    if bytes(pub) != before or not pub.is_public or pub.is_protected:
        ctx.viol('%s:protect-changed-public' % sigp, '%s: protect() changed a public key' % what)


def execute(case, ctx):
    cfg = case['config']
    secrets = Secrets()
    h = keyworld.KeyHistory(cfg['keys'], ctx, {'on_new_component': lambda hh, name, obj: secrets.add(name, obj)})
    pgpy = h.pgpy
    seams.clock().set(cfg.get('start_us', 1_600_000_000_000_000))
    changed_since_hold = {}
    interesting = False
    for step in case['steps']:
        ctx.step = step['id']
        ctx.steps_done += 1
        seams.rnd().set_step(step['id'])
        name = step.get('key')
        out = h.apply(step)
        ctx.event(step['id'], step['op'], name, out)
        if h.ghosts:
            ctx.checked()
            for msg in h.ghost_violations():
                ctx.viol('C07:original-changed-through-copy', msg)
        if name not in h.priv or h.priv[name].is_public:
            continue
        k, mk = h.priv[name], h.model[name]
        if step['op'] == 'derive_pub':
            changed_since_hold[name] = set()
        elif step['op'] in ('add_subkey', 'add_uid', 'add_uattr', 'recertify', 'protect', 'revoke_uid', 'revoke_subkey', 'del_uid',
                            'rebind_subkey', 'revoke_key', 'add_revoker') and out == 'ok' and name in h.held_pub:
            changed_since_hold.setdefault(name, set()).add(step['op'])
        if step['op'] == 'tick':
            continue
        sec = secrets.by_key.get(name, set())
        # a twin derived before later changes
        if name in h.held_pub:
            if changed_since_hold.get(name):
                interesting = True
                if 'add_subkey' in changed_since_hold[name]:
                    ctx.probe('held_twin_after_add_subkey')
                if 'add_uid' in changed_since_hold[name]:
                    ctx.probe('held_twin_after_add_uid')
            check_public(ctx, 'public key of %s derived before %s' % (name, step['op']), h.held_pub[name], k, sec)
        # a twin derived now: from a locked key, and from an unlocked protected key
        if mk.passphrase is not None:
            ctx.probe('twin_of_locked_key')
            if step.get('unlocked_export'):
                with k.unlock(mk.passphrase):
                    ctx.probe('twin_of_unlocked_protected_key')
                    interesting = True
                    check_public(ctx, 'public key of %s derived while unlocked' % name, k.pubkey, k, sec)
        check_public(ctx, 'public key of %s derived after %s' % (name, step['op']), k.pubkey, k, sec)
        if step['op'] in ('derive_pub', 'add_subkey', 'protect'):
            refuses_private_ops(ctx, 'derived public key of %s' % name, pgpy, k.pubkey)
            loaded = pgpy.PGPKey.from_blob(bytes(k.pubkey))[0]
            ctx.probe('loaded_public_key_ops')
            refuses_private_ops(ctx, 'loaded public key of %s' % name, pgpy, loaded)
    if interesting:
        ctx.mark_nontrivial('t')
