"""C13 - every operation draws fresh secret randomness of the right size.

The randomness seam is the instrument: every octet PGPy draws (os.urandom, EC /
X25519 key generation) is served, tagged and logged by the simulator.  Histories of
encrypt / protect / re-protect operations interleaved across messages and keys in
one process, including repeated encryption of the identical message to the
identical recipients and failing system calls (X3).  Oracle, from the draw log and
the reference peer's reading of the output: session key, prefix, salts, IVs and
ECDH ephemeral keys of an operation are draws made *in that operation*, have the
right size, occur in no other operation, and the session key does not appear in the
output."""
import copy

from .. import core, encworld, seams, world
from ..ref import algo as ralgo, enc as renc, keys as rkeys, tkey as rtkey
from ..ref.wire import WireError, split_packets

ID = 'C13'
RULE = ('cases are histories of 4-12 operations (encrypt with generated or supplied session key to keys/passphrases, repeated '
        'identical encryptions, protect, unlock+re-protect with the same or other algorithms, operations with an injected '
        'os.urandom failure); a run is non-trivial when at least two operations of the same class were checked against the '
        'draw log and against each other; distinct = distinct operation-class sequences with their recipient kinds')
TIERS = {'quick': {'runs': 4000, 'budget_s': 80}, 'thorough': {'runs': 200000, 'budget_s': 1500}}
PROBES = ('earlier_output_written_again_after_later_encryption', 'cipher_chosen_from_preferences', 'same_message_object_again', 'repeat_identical_encrypt', 'reprotect_same_algos', 'reprotect_other_algos', 'urandom_failure_injected', 'ecdh_ephemeral_checked',
          'skesk_salt_checked', 'protect_components>=2', 'supplied_session_key', 'multi_recipient')


def generate(rng, tier):
    rcfg = encworld.gen_recipients(rng, n=rng.choice([2, 2, 3]), heavy=0.05)
    for spec in rcfg.values():
        if not spec.get('foreign') and rng.random() < 0.4:
            # the recipient's own cipher preferences, possibly led by one PGPy cannot encrypt with (Twofish)
            spec['ciphers'] = rng.choice([[10, 7], [10, 8, 9], [10, 9], [7, 9], [12, 9], [10, 12, 7]])
    names = sorted(rcfg)
    steps = []
    n = rng.randint(4, 12 if tier == 'thorough' else 8)
    last_enc = None
    for i in range(n):
        sid = 's%d' % i
        r = rng.random()
        if r < 0.5:
            if last_enc is not None and rng.random() < 0.3:
                st = copy.deepcopy(last_enc)
                st['id'] = sid
                st['repeat'] = True
                # the caller's very same PGPMessage object encrypted again (or a new object with the same content)
                st['same_object'] = rng.random() < 0.6
                if rng.random() < 0.4:
                    # ... possibly to other recipients
                    st['recips'] = [['key', rng.choice(names)]]
            else:
                nrec = rng.choice([1, 1, 2, 3])
                recips = []
                for _ in range(nrec):
                    recips.append(['key', rng.choice(names)] if rng.random() < 0.6 else ['pass', rng.choice(encworld.PASSPHRASES[:4])])
                seen = set()
                recips = [x for x in recips if not (tuple(x) in seen or seen.add(tuple(x)))]
                spec = encworld.gen_message_spec(rng)
                spec['size'] = min(spec['size'], 200)
                spec['file'] = False
                st = {'id': sid, 'op': 'encrypt', 'msg': spec, 'recips': recips, 'cipher': rng.choice(encworld.CIPHERS),
                      'supplied_sk': rng.random() < 0.12}
                if rng.random() < 0.3:
                    # no cipher named by the caller: the (single key) recipient's preferences decide
                    st['cipher_from_prefs'] = True
                    st['recips'] = [['key', rng.choice(names)]]
                    st['supplied_sk'] = False
            st['fail_urandom'] = rng.choice([1, 2, 3]) if rng.random() < 0.08 else 0
            last_enc = {k: v for k, v in st.items() if k not in ('fail_urandom', 'repeat', 'same_object')}
            steps.append(st)
        elif r < 0.8:
            steps.append({'id': sid, 'op': 'protect', 'key': rng.choice(names), 'pass': rng.choice(['pw one', 'pw two', 'ünï']),
                          'cipher': rng.choice([7, 8, 9, 3, 2, 11, 13]), 'hash': rng.choice([8, 10, 2, 9]),
                          'fail_urandom': rng.choice([1, 2]) if rng.random() < 0.08 else 0})
        else:
            steps.append({'id': sid, 'op': 'tick', 'delta_us': rng.choice([0, 1_000_000, 3600_000_000])})
    return {'config': {'recipients': rcfg, 's2k_count': rng.choice([0, 16, 16]), 'start_us': 1_600_000_000_000_000}, 'steps': steps}


def simplify(case):
    for i, s in enumerate(case['steps']):
        if s['op'] == 'encrypt':
            if len(s['recips']) > 1:
                for j in range(len(s['recips'])):
                    c = copy.deepcopy(case)
                    del c['steps'][i]['recips'][j]
                    yield c
            if s['msg']['size'] > 1 or s['msg']['compression']:
                c = copy.deepcopy(case)
                c['steps'][i]['msg']['size'] = 1
                c['steps'][i]['msg']['compression'] = 0
                yield c
        if s.get('fail_urandom'):
            c = copy.deepcopy(case)
            c['steps'][i]['fail_urandom'] = 0
            yield c


class Seen(object):
    def __init__(self):
        self.values = {}       # value -> (step, what)

    def claim(self, ctx, value, step, what):
        value = bytes(value)
        if value in self.values and self.values[value][0] != step:
            ctx.viol('C13:reused:%s' % what.split(':')[0],
                     '%s of operation %s already occurred in operation %s (as %s)' % (what, step, self.values[value][0], self.values[value][1]))
        self.values[value] = (step, what)


def _pub_from_keygen(kind, raw):
    from cryptography.hazmat.primitives import serialization
    from cryptography.hazmat.primitives.asymmetric import ec, x25519
    if kind == 'x25519':
        p = x25519.X25519PrivateKey.from_private_bytes(raw).public_key()
        return b'\x40' + p.public_bytes(serialization.Encoding.Raw, serialization.PublicFormat.Raw)
    if kind.startswith('ec:'):
        name = {'secp256r1': 'p256', 'secp384r1': 'p384', 'secp521r1': 'p521', 'secp256k1': 'secp256k1'}[kind[3:]]
        d = int.from_bytes(raw, 'big') % (ralgo.EC_ORDERS[name] - 1) + 1
        p = ec.derive_private_key(d, rkeys._EC[name]()).public_key()
        return p.public_bytes(serialization.Encoding.X962, serialization.PublicFormat.UncompressedPoint)
    return None


def execute(case, ctx):
    import pgpy
    cfg = case['config']
    R = encworld.Recipients(cfg['recipients'])
    seams.clock().set(cfg.get('start_us', 1_600_000_000_000_000))
    rnd = seams.rnd()
    seen = Seen()
    classes = []
    nchecked = {'encrypt': 0, 'protect': 0}
    protected = {}        # key name -> (passphrase, cipher, hash)
    for step in case['steps']:
        ctx.step = step['id']
        ctx.steps_done += 1
        rnd.set_step(step['id'])
        if step['op'] == 'tick':
            seams.clock().advance(step['delta_us'])
            continue
        if step['op'] == 'encrypt':
            recips = [r for r in step['recips'] if r[0] == 'pass' or (r[1] in R.keys and r[1] not in protected)]
            if not recips:
                continue
            if _encrypt(pgpy, R, step, recips, ctx, rnd, seen):
                nchecked['encrypt'] += 1
                classes.append('E' + ''.join(sorted(k[0] for k, _ in recips)) + ('r' if step.get('repeat') else ''))
        elif step['op'] == 'protect' and step['key'] in R.keys:
            if _protect(pgpy, R, step, ctx, rnd, seen, protected):
                nchecked['protect'] += 1
                classes.append('P')
    if max(nchecked.values()) >= 2:
        ctx.mark_nontrivial(''.join(classes))


def _encrypt(pgpy, R, step, recips, ctx, rnd, seen):
    cached = getattr(R, 'last_message', None)
    if step.get('repeat') and step.get('same_object') and cached is not None and cached[0] == core.jdump(step['msg']):
        msg = cached[1]
        ctx.probe('same_message_object_again')
    else:
        msg, data = encworld.make_message(pgpy, step['msg'])
    R.last_message = (core.jdump(step['msg']), msg)
    cid = step['cipher']
    sk = None
    if step.get('supplied_sk'):
        sk = seams.derive(ctx.run_seed, step['id'], 'supplied-sk', ralgo.key_size(cid))
        ctx.probe('supplied_session_key')
    if step.get('repeat'):
        ctx.probe('repeat_identical_encrypt')
    if len(recips) > 1:
        ctx.probe('multi_recipient')
    mark = rnd.mark()
    if step.get('fail_urandom'):
        rnd.fail_next = step['fail_urandom']
        ctx.probe('urandom_failure_injected')
    fired0 = rnd.fired_failures
    try:
        if step.get('cipher_from_prefs') and len(recips) == 1 and recips[0][0] == 'key':
            ctx.probe('cipher_chosen_from_preferences')
            enc = R.keys[recips[0][1]].pubkey.encrypt(msg)
        else:
            enc, used = encworld.pgpy_encrypt(pgpy, msg, recips, R, cid, sk)
        out = bytes(enc)
        raised = None
    except Exception as e:
        raised = e
    finally:
        rnd.fail_next = 0
    if rnd.fired_failures > fired0:
        ctx.fault('X3')
        ctx.checked()
        if raised is None:
            ctx.viol('C13:continued-after-urandom-failure:encrypt', 'os.urandom failed inside an encryption and the operation still produced output')
        ctx.event(step['id'], 'encrypt', 'X3-raised')
        return False
    if raised is not None:
        ctx.event(step['id'], 'encrypt', 'refused', type(raised).__name__)
        return False
    # a batch is often written out after all of it was encrypted: an earlier ciphertext object still carries its own salts, IVs and
    # session-key packets after later encryptions
    prev = getattr(R, 'last_enc', None)
    if prev is not None:
        ctx.checked()
        ctx.probe('earlier_output_written_again_after_later_encryption')
        if bytes(prev[0]) != prev[1]:
            ctx.viol('C13:earlier-output-changed-by-later-encryption', 'a ciphertext object made earlier exports other octets after a later '
                     'encryption (its random fields are not its own)')
    R.last_enc = (enc, out)
    draws = rnd.draws_since(mark)
    ur = [d for d in draws if d[1] == 'urandom']
    kg = [d for d in draws if d[1] != 'urandom']
    # the reference peer opens the message with any one credential
    info = None
    for kind, who in recips:
        try:
            _, info = encworld.ref_inner(out, who if kind == 'pass' else None, R.ref_secrets(who) if kind == 'key' else ())
            break
        except (renc.DecryptError, WireError, ralgo.AlgoError, rkeys.KeyError_):
            continue
    if info is None:
        # conformance is C03's business - except for the one thing this property names: the session key a public-key recipient
        # is sent has the size of the cipher it is sent for
        for kind, who in recips:
            if kind != 'key':
                continue
            for p in split_packets(out):
                if p.tag != 1:
                    continue
                try:
                    pk = renc.parse_pkesk(p.body)
                    for pub, secret in R.ref_secrets(who):
                        if pk.keyid == pub.keyid:
                            c2, k2 = renc.pkesk_session_key(pk, pub, secret)
                            ctx.checked()
                            if c2 in ralgo.CIPHER_NAMES and len(k2) != ralgo.key_size(c2):
                                ctx.viol('C13:session-key-size', 'the session key sent to a public-key recipient has %d octets, the cipher it names (%s) needs %d'
                                         % (len(k2), ralgo.CIPHER_NAMES[c2], ralgo.key_size(c2)))
                except renc.DecryptError as e:
                    if 'does not fit cipher' in str(e):
                        ctx.checked()
                        ctx.viol('C13:session-key-size', 'the session key block sent to a public-key recipient has the wrong length for the cipher it names: %s' % e)
                    continue
                except (WireError, ralgo.AlgoError, rkeys.KeyError_, ValueError):
                    continue
        ctx.event(step['id'], 'encrypt', 'ref-cannot-open')
        return False
    ctx.checked()
    skey, prefix = bytes(info['session_key']), bytes(info['prefix'])
    cid = info.get('cipher', cid)            # the cipher the message actually names
    ks, bs = ralgo.key_size(cid), ralgo.block_size(cid)
    if sk is None:
        if len(skey) != ks:
            ctx.viol('C13:session-key-size', 'session key has %d octets, cipher needs %d' % (len(skey), ks))
        if skey not in [d[4] for d in ur if d[2] == ks]:
            ctx.viol('C13:session-key-not-drawn', 'the session key is not a %d-octet draw made during this operation' % ks)
        seen.claim(ctx, skey, step['id'], 'session-key')
    if skey in out:
        ctx.viol('C13:session-key-in-output', 'the session key appears in the clear in the output')
    if prefix not in [d[4] for d in ur if d[2] == bs]:
        ctx.viol('C13:prefix-not-drawn', 'the random prefix is not a %d-octet draw made during this operation' % bs)
    seen.claim(ctx, prefix, step['id'], 'prefix')
    if prefix == skey[:bs] or (bs <= len(skey) and prefix in skey):
        ctx.viol('C13:prefix-equals-key', 'prefix is derived from the session key')
    salts = []
    for p in split_packets(out):
        if p.tag == 3:
            s = renc.parse_skesk(p.body)
            if s.s2k_type in (1, 3):
                ctx.probe('skesk_salt_checked')
                if s.salt not in [d[4] for d in ur if d[2] == 8]:
                    ctx.viol('C13:salt-not-drawn', 'an SKESK salt is not an 8-octet draw made during this operation')
                if s.salt in salts:
                    ctx.viol('C13:salt-shared', 'two passphrase packets of one message share a salt')
                salts.append(s.salt)
                seen.claim(ctx, s.salt, step['id'], 'salt')
            else:
                ctx.viol('C13:unsalted-skesk', 'passphrase packet without a salt')
        elif p.tag == 1:
            pk = renc.parse_pkesk(p.body)
            if pk.alg == rkeys.ECDH:
                ctx.probe('ecdh_ephemeral_checked')
                pubs = [_pub_from_keygen(d[1], d[4]) for d in kg]
                if pk.point not in pubs:
                    ctx.viol('C13:ephemeral-not-drawn', 'an ECDH session-key packet does not carry an ephemeral key generated during this operation')
                seen.claim(ctx, pk.point, step['id'], 'ephemeral')
    ctx.event(step['id'], 'encrypt', len(recips), cid, len(ur), len(kg))
    return True


def _protect(pgpy, R, step, ctx, rnd, seen, protected):
    C = pgpy.constants
    key = R.keys[step['key']]
    name = step['key']
    mark = rnd.mark()
    fired0 = rnd.fired_failures
    raised = None
    try:
        if name in protected:
            old = protected[name]
            same = (old[1], old[2]) == (step['cipher'], step['hash'])
            ctx.probe('reprotect_same_algos' if same else 'reprotect_other_algos')
            with key.unlock(old[0]):
                mark = rnd.mark()
                if step.get('fail_urandom'):
                    rnd.fail_next = step['fail_urandom']
                    ctx.probe('urandom_failure_injected')
                key.protect(step['pass'], C.SymmetricKeyAlgorithm(step['cipher']), C.HashAlgorithm(step['hash']))
        else:
            if step.get('fail_urandom'):
                rnd.fail_next = step['fail_urandom']
                ctx.probe('urandom_failure_injected')
            key.protect(step['pass'], C.SymmetricKeyAlgorithm(step['cipher']), C.HashAlgorithm(step['hash']))
    except Exception as e:
        raised = e
    finally:
        rnd.fail_next = 0
    if rnd.fired_failures > fired0:
        ctx.fault('X3')
        ctx.checked()
        if raised is None:
            ctx.viol('C13:continued-after-urandom-failure:protect', 'os.urandom failed inside protect() and the operation still completed')
        # the key may now be half protected; it is dropped from the rest of the history
        protected[name] = ('?', -1, -1)
        R.keys.pop(name, None)
        return False
    if raised is not None:
        ctx.event(step['id'], 'protect', 'raised', type(raised).__name__)
        R.keys.pop(name, None)
        return False
    protected[name] = (step['pass'], step['cipher'], step['hash'])
    draws = rnd.draws_since(mark)
    ur = [d for d in draws if d[1] == 'urandom']
    tk = rtkey.parse_keys(bytes(key))[0]
    comps = [tk.sec] + [c.sec for c in tk.subkeys]
    if len(comps) >= 2:
        ctx.probe('protect_components>=2')
    ivs, salts = [], []
    bs = ralgo.block_size(step['cipher'])
    ctx.checked()
    for i, sec in enumerate(comps):
        if sec is None or sec.usage not in (254, 255):
            ctx.viol('C13:not-protected', 'component %d is not protected after protect()' % i)
            continue
        if sec.iv not in [d[4] for d in ur if d[2] == bs]:
            ctx.viol('C13:iv-not-drawn', 'the IV of component %d is not a %d-octet draw made during this protect()' % (i, bs))
        if sec.salt not in [d[4] for d in ur if d[2] == 8]:
            ctx.viol('C13:salt-not-drawn', 'the S2K salt of component %d is not an 8-octet draw made during this protect()' % i)
        if sec.iv in ivs or sec.salt in salts:
            ctx.viol('C13:shared-between-components', 'two components of one key share an IV or a salt')
        ivs.append(sec.iv)
        salts.append(sec.salt)
        seen.claim(ctx, sec.iv, step['id'], 'iv')
        seen.claim(ctx, sec.salt, step['id'], 'salt')
        if sec.iv[:8] == sec.salt:
            ctx.viol('C13:salt-equals-iv', 'salt and IV of component %d are the same octets' % i)
    ctx.event(step['id'], 'protect', len(comps), len(ur))
    return True
