"""C03 - encryption round-trips and conforms to RFC 4880 / RFC 6637 in both directions.

PGPy parties encrypt generated messages to generated recipient sets (RSA, ECDH on
five curves, encryption subkeys, passphrases with every S2K hash; 1-4 recipients;
every cipher; every compression; supplied or generated session keys; signed first
or not); the ciphertext crosses a benignly re-framing channel; every recipient
decrypts with PGPy, and the reference peer decrypts with the secret numbers it
reads from the exported secret keys.  In the other direction the reference peer
encrypts (SEIPD and legacy SED, partial lengths, several ESKs, SKESK with and
without an encrypted session key, simple/salted/iterated S2K) and PGPy decrypts."""
import copy

from .. import encworld, seams
from ..ref import algo as ralgo, armor as rarmor, enc as renc, keys as rkeys
from ..ref.wire import WireError, encode_packet, split_packets
from .c02 import reframe_bytes

ID = 'C03'
RULE = ('cases are histories of 2-6 encrypt/decrypt exchanges (PGPy->PGPy+reference, reference->PGPy) over a per-run recipient '
        'universe, with clock ticks and benign re-framing of the ciphertext; a run is non-trivial when at least one exchange '
        'was decrypted by every recipient and by the other implementation; distinct = distinct (direction, recipient kinds, '
        'cipher, compression, body class) tuples sequences among non-trivial runs')
TIERS = {"quick": {"runs": 5000, "budget_s": 90}, "thorough": {"runs": 200000, "budget_s": 1500}}
PROBES = ('decrypt_via_copy', 'ref_ecdh_padded_to_40', 'recipients>=3', 'mixed_key_and_passphrase', 'skesk_before_pkesk', 'two_enc_subkeys_one_key', 'supplied_session_key',
          'signed_then_encrypted', 'rsa_recipient', 'ecdh_nist', 'ecdh_cv25519', 'ref_sed_legacy', 'ref_partial_lengths',
          'ref_skesk_direct_key', 'ref_skesk_wrap_cipher_differs', 'ref_s2k_simple', 'ref_s2k_salted', 'body_empty', 'body_big', 'armor_hop', 'reframe_hop',
          'marker_packet', 'encrypt_refused', 'from_file')
HASHSEED_SENSITIVE = False


def generate(rng, tier):
    rcfg = encworld.gen_recipients(rng, heavy=0.1 if tier == 'quick' else 0.2)
    names = sorted(rcfg)
    steps = []
    n = rng.randint(2, 6 if tier == 'thorough' else 4)
    for i in range(n):
        sid = 's%d' % i
        r = rng.random()
        if r < 0.1:
            steps.append({'id': sid, 'op': 'tick', 'delta_us': rng.choice([0, 1_000_000, 86400_000_000])})
            continue
        nrec = rng.choice([1, 1, 2, 2, 3, 4])
        recips = []
        for _ in range(nrec):
            if rng.random() < 0.65:
                recips.append(['key', rng.choice(names)])
            else:
                recips.append(['pass', rng.choice(encworld.PASSPHRASES)])
        # a key appears once; passphrases are distinct
        seen = set()
        recips = [x for x in recips if not (tuple(x) in seen or seen.add(tuple(x)))]
        spec = encworld.gen_message_spec(rng, big_ok=(tier == 'thorough' and rng.random() < 0.15))
        if r < 0.68:
            steps.append({'id': sid, 'op': 'encrypt', 'msg': spec, 'recips': recips, 'cipher': rng.choice(encworld.CIPHERS),
                          's2k_hash': rng.choice([8, 8, 10, 9, 11, 2, 1, 3]),
                          'supplied_sk': rng.random() < 0.25, 'signed_by': rng.choice(names) if rng.random() < 0.3 else None,
                          'via_copy': rng.random() < 0.3,
                          'perturb': rng.sample(['armor', 'reframe_old', 'reframe_5', 'marker', 'partial'], rng.choice([0, 0, 1, 2]))})
        else:
            esks = []
            for kind, who in recips:
                if kind == 'key':
                    esks.append({'t': 'pk', 'key': who, 'pad40': rng.random() < 0.4})
                else:
                    esks.append({'t': 'sk', 'pass': who, 's2k': rng.choice([0, 1, 3, 3]), 'hash': rng.choice([8, 2, 10, 1, 11, 9]),
                                 'count': rng.choice([0, 16, 96, 200]), 'direct': rng.random() < 0.3,
                                 'wrap': rng.choice([None, None, 7, 8, 9, 3, 2, 11, 13])})
            if any(e['t'] == 'sk' and e['s2k'] == 0 for e in esks):
                # an empty passphrase tried against a simple-S2K packet hashes nothing at all (PGPy divides by
                # zero there instead of moving on to the next packet); that corner is left out
                for e in esks:
                    if e['t'] == 'sk' and e['pass'] == '':
                        e['pass'] = 'x'
                seen2 = set()
                esks = [e for e in esks if e['t'] == 'pk' or not (e['pass'] in seen2 or seen2.add(e['pass']))]
            # "direct" (S2K output is the session key) only makes sense for a single passphrase ESK
            if len(esks) > 1:
                for e in esks:
                    e['direct'] = False
            steps.append({'id': sid, 'op': 'ref_encrypt', 'msg': spec, 'esks': esks, 'cipher': rng.choice(encworld.CIPHERS + [1]),
                          'container': rng.choice(['seipd', 'seipd', 'seipd', 'sed']), 'via_copy': rng.random() < 0.3,
                          'framing': rng.choice(['new', 'new', 'old', 'partial']), 'perturb': rng.sample(['armor', 'marker'], rng.choice([0, 0, 1]))})
    return {'config': {'recipients': rcfg, 's2k_count': rng.choice([0, 16, 16, 96] if tier == 'quick' else [0, 16, 96, 255]),
                       'start_us': 1_600_000_000_000_000}, 'steps': steps}


def simplify(case):
    for i, s in enumerate(case['steps']):
        if s['op'] in ('encrypt', 'ref_encrypt'):
            if s.get('perturb'):
                c = copy.deepcopy(case)
                c['steps'][i]['perturb'] = []
                yield c
            key = 'recips' if s['op'] == 'encrypt' else 'esks'
            if len(s[key]) > 1:
                for j in range(len(s[key])):
                    c = copy.deepcopy(case)
                    del c['steps'][i][key][j]
                    yield c
            if s['msg']['size'] > 5:
                c = copy.deepcopy(case)
                c['steps'][i]['msg']['size'] = 5
                if c['steps'][i]['msg']['body'] == 'big':
                    c['steps'][i]['msg']['body'] = 'binary'
                yield c
            if s['msg']['compression']:
                c = copy.deepcopy(case)
                c['steps'][i]['msg']['compression'] = 0
                yield c
            for f in ('signed_by', 'supplied_sk'):
                if s.get(f):
                    c = copy.deepcopy(case)
                    c['steps'][i][f] = None
                    yield c
            if s['msg'].get('file') or s['msg'].get('sensitive') or s['msg'].get('format'):
                c = copy.deepcopy(case)
                c['steps'][i]['msg'].update({'file': False, 'sensitive': False, 'format': None})
                yield c
            if s['cipher'] != 9:
                c = copy.deepcopy(case)
                c['steps'][i]['cipher'] = 9
                yield c


def transport(data, kinds, ctx, label='MESSAGE'):
    out = bytes(data)
    for k in sorted(kinds, key=lambda x: ({'armor': 9, 'marker': 1}.get(x, 0), x)):
        if k in ('reframe_old', 'reframe_5'):
            out = reframe_bytes(out, k)
            ctx.perturb('reframe')
            ctx.probe('reframe_hop')
        elif k == 'partial':
            pk = split_packets(out)
            last = pk[-1]
            if last.tag in (9, 18) and len(last.body) >= 600:
                out = b''.join(p.raw for p in pk[:-1]) + encode_packet(last.tag, last.body, 'new', chunks=[512])
                ctx.perturb('partial')
                ctx.probe('ref_partial_lengths')
        elif k == 'marker':
            out = encode_packet(10, b'PGP') + out
            ctx.perturb('marker')
            ctx.probe('marker_packet')
        elif k == 'armor':
            out = rarmor.enarmor(label, out, [('Comment', 'relay')]).encode('ascii')
            ctx.perturb('armor')
            ctx.probe('armor_hop')
    return out


def execute(case, ctx):
    import pgpy
    cfg = case['config']
    R = encworld.Recipients(cfg['recipients'])
    clock = seams.clock()
    clock.set(cfg.get('start_us', 1_600_000_000_000_000))
    for name, k in R.keys.items():
        if int(k.key_algorithm) == 1 and not k.subkeys:
            ctx.probe('rsa_recipient')
        for sk in k.subkeys.values():
            if int(sk.key_algorithm) == 1:
                ctx.probe('rsa_recipient')
            if int(sk.key_algorithm) == 18:
                ctx.probe('ecdh_cv25519' if 'Curve25519' in str(sk.key_size) else 'ecdh_nist')
        if len([s for s in k.subkeys.values() if int(s.key_algorithm) in (1, 18)]) >= 2:
            ctx.probe('two_enc_subkeys_one_key')
    shapes = []
    for step in case['steps']:
        ctx.step = step['id']
        ctx.steps_done += 1
        seams.rnd().set_step(step['id'])
        if step['op'] == 'tick':
            clock.advance(step['delta_us'])
            continue
        recips = step.get('recips') or [[('key' if e['t'] == 'pk' else 'pass'), e.get('key', e.get('pass'))] for e in step['esks']]
        if any(k == 'key' and w not in R.keys for k, w in recips) or not recips:
            continue
        if step['op'] == 'encrypt':
            _encrypt_step(pgpy, R, step, recips, ctx, shapes)
        else:
            _ref_encrypt_step(pgpy, R, step, ctx, shapes)
    if shapes:
        ctx.mark_nontrivial('|'.join(shapes))


def _kinds(R, recips):
    out = []
    for k, w in recips:
        out.append('pass' if k == 'pass' else R.cfg[w]['alg'] + '+' + ','.join(s['alg'] for s in R.cfg[w]['subkeys']))
    return out


def _compare(ctx, what, orig_shape, dec_bytes, sig):
    got = encworld.shape_of(dec_bytes, drop_mdc=True)
    if got['errors']:
        ctx.viol(sig + ':malformed', '%s: decrypted message does not re-export as an OpenPGP message: %s' % (what, got['errors'][:2]))
    for f in ('data', 'fmt', 'filename', 'mtime', 'compression', 'sigs'):
        if got[f] != orig_shape[f]:
            a, b = orig_shape[f], got[f]
            if f == 'data':
                a, b = 'len %d' % len(a or b''), 'len %d' % len(b or b'')
            if f == 'sigs':
                a, b = len(a), len(b)
            ctx.viol(sig + ':' + f, '%s: %s differs after decryption (%r -> %r)' % (what, f, a, b))


def _encrypt_step(pgpy, R, step, recips, ctx, shapes):
    C = pgpy.constants
    msg, data = encworld.make_message(pgpy, step['msg'])
    if step['msg'].get('file'):
        ctx.probe('from_file')
    if step.get('signed_by') in R.keys:
        try:
            msg |= R.keys[step['signed_by']].sign(msg)
            ctx.probe('signed_then_encrypted')
        except Exception:
            pass
    orig_bytes = bytes(msg)
    orig_shape = encworld.shape_of(orig_bytes)
    if orig_shape['errors']:
        # composition problems are C20's business
        return
    sk = None
    if step.get('supplied_sk'):
        sk = seams.derive(case_seed(ctx), step['id'], 'supplied-sk', ralgo.key_size(step['cipher']))
        ctx.probe('supplied_session_key')
    try:
        enc, used_sk = encworld.pgpy_encrypt(pgpy, msg, recips, R, step['cipher'], sk, step.get('s2k_hash', 8))
        enc_bytes = bytes(enc)
    except Exception as e:
        ctx.probe('encrypt_refused')
        ctx.event(step['id'], 'encrypt', 'refused', type(e).__name__)
        return
    if len(recips) >= 3:
        ctx.probe('recipients>=3')
    kinds = set(k for k, _ in recips)
    if len(kinds) == 2:
        ctx.probe('mixed_key_and_passphrase')
    if step['msg']['size'] == 0:
        ctx.probe('body_empty')
    if step['msg']['body'] == 'big':
        ctx.probe('body_big')
    # grammar of what PGPy emitted
    sh = renc.recognise(enc_bytes)
    ctx.checked()
    if sh.errors or sh.kind != 'encrypted' or sh.container.tag != 18:
        ctx.viol('C03:emitted-not-encrypted-message', 'PGPy\'s output is not ESK* + one SEIPD packet: %s' % sh.errors[:2])
    tags = [p.tag for p in sh.esks]
    if 3 in tags and 1 in tags and tags.index(3) < len(tags) - 1 - tags[::-1].index(1):
        ctx.probe('skesk_before_pkesk')
    wire = transport(enc_bytes, step.get('perturb', []), ctx)
    session_keys = set()
    for kind, who in recips:
        # --- PGPy recipient
        ctx.checked()
        try:
            m = pgpy.PGPMessage.from_blob(wire)
            if step.get('via_copy'):
                # the recipient works on a copy of the parsed message (and of the key): the same message
                m = copy.copy(m)
                ctx.probe('decrypt_via_copy')
            dec = (copy.copy(R.keys[who]) if step.get('via_copy') else R.keys[who]).decrypt(m) if kind == 'key' else m.decrypt(who)
            dec_bytes = bytes(dec)
        except Exception as e:
            ctx.viol('C03:recipient-cannot-decrypt:%s:%s' % (kind, type(e).__name__),
                     'recipient %s of %s cannot decrypt PGPy\'s own message: %s: %s' % (kind, _kinds(R, recips), type(e).__name__, e))
            continue
        _compare(ctx, 'PGPy recipient (%s)' % kind, orig_shape, dec_bytes, 'C03:roundtrip')
        if dec.is_compressed != msg.is_compressed or dec.filename != msg.filename or len(dec.signatures) != len(msg.signatures):
            ctx.viol('C03:roundtrip:attributes', 'decrypted PGPMessage attributes differ (compressed %s/%s, filename %r/%r, signatures %d/%d)'
                     % (msg.is_compressed, dec.is_compressed, msg.filename, dec.filename, len(msg.signatures), len(dec.signatures)))
        if dec.message != msg.message:
            ctx.viol('C03:roundtrip:message', 'decrypted PGPMessage.message differs from the original')
        # --- reference peer with the same credential
        ctx.checked()
        try:
            if kind == 'key':
                inner, info = encworld.ref_inner(enc_bytes, None, R.ref_secrets(who))
            else:
                inner, info = encworld.ref_inner(enc_bytes, who, ())
        except (renc.DecryptError, WireError, ralgo.AlgoError, rkeys.KeyError_) as e:
            ctx.viol('C03:ref-cannot-decrypt:%s' % kind, 'the reference peer cannot decrypt PGPy\'s message with the %s credential of %s: %s'
                     % (kind, _kinds(R, recips), e))
            continue
        if inner != orig_bytes:
            ctx.viol('C03:ref-inner-differs', 'the reference peer recovers other plaintext packets than PGPy encrypted (%d vs %d octets)'
                     % (len(inner), len(orig_bytes)))
        if info['cipher'] != step['cipher']:
            ctx.viol('C03:ref-cipher-differs', 'the session key block names cipher %d, the caller chose %d' % (info['cipher'], step['cipher']))
        session_keys.add(bytes(info['session_key']))
    if len(session_keys) > 1:
        ctx.viol('C03:session-keys-differ', 'recipients of one message recovered different session keys')
    if used_sk is not None and session_keys and bytes(used_sk) not in session_keys:
        ctx.viol('C03:supplied-session-key-not-used', 'the supplied session key is not the one recipients recover')
    shapes.append('E:%s:%d:%d:%s' % ('+'.join(sorted(set(x.split('+')[-1] or x for x in _kinds(R, recips)))), step['cipher'],
                                     step['msg']['compression'], step['msg']['body']))
    ctx.event(step['id'], 'encrypt', len(recips), step['cipher'], step['msg']['size'])     # no octet counts: signature lengths are noise


def case_seed(ctx):
    return ctx.run_seed


def _ref_encrypt_step(pgpy, R, step, ctx, shapes):
    spec = step['msg']
    data = encworld.body_octets(spec)
    if spec['body'] in ('binary', 'big'):
        data = data[:spec['size']]
    fmt = spec.get('format') or 'b'
    if spec['body'] in ('binary', 'zeros', 'incompressible', 'big'):
        fmt = 'b'
    lit = renc.build_literal(fmt.encode(), spec['filename'].encode() if not spec.get('sensitive') else b'_CONSOLE', spec['mtime'], data)
    chunks = [512] if step['framing'] == 'partial' and len(lit) > 600 else None
    inner = encode_packet(11, lit, 'old' if step['framing'] == 'old' else 'new', chunks=chunks)
    if spec['compression']:
        inner = encode_packet(8, renc.compress(spec['compression'], inner), 'old' if step['framing'] == 'old' else 'new')
    cid = step['cipher']
    if cid == 1 and ralgo.CIPHERS[1][0] is None:
        return
    seed = lambda what, n: seams.derive(ctx.run_seed, step['id'], 'ref:' + what, n)
    direct = [e for e in step['esks'] if e['t'] == 'sk' and e.get('direct')]
    if direct:
        e = direct[0]
        salt = seed('salt0', 8)
        key = ralgo.s2k(e['s2k'], e['hash'], e['pass'], ralgo.key_size(cid), salt, e['count'])
        ctx.probe('ref_skesk_direct_key')
    else:
        key = seed('sk', ralgo.key_size(cid))
    out = bytearray()
    for j, e in enumerate(step['esks']):
        if e['t'] == 'pk':
            k = R.keys[e['key']]
            # encryption component: first subkey that can encrypt, else the primary
            comps = encworld.rtkey.parse_keys(bytes(k.pubkey))[0]
            cand = [c.key for c in comps.subkeys if c.key.alg in (rkeys.ECDH, rkeys.RSA_ES)] or [comps.pub]
            tgt = cand[(j + len(step['id'])) % len(cand)]
            if tgt.alg not in (rkeys.ECDH, rkeys.RSA_ES):
                continue
            if e.get('pad40') and tgt.alg == rkeys.ECDH:
                ctx.probe('ref_ecdh_padded_to_40')
            out += encode_packet(1, renc.build_pkesk(tgt, cid, key, seed('pk%d' % j, 600), ecdh_pad_to=40 if e.get('pad40') else None),
                                 'old' if step['framing'] == 'old' else 'new')
        else:
            salt = seed('salt%d' % j, 8)
            if e['s2k'] == 0:
                ctx.probe('ref_s2k_simple')
            if e['s2k'] == 1:
                ctx.probe('ref_s2k_salted')
            wrap = cid if (e.get('direct') or not e.get('wrap')) else e['wrap']
            if wrap != cid:
                ctx.probe('ref_skesk_wrap_cipher_differs')
            body = renc.build_skesk(wrap, e['s2k'], e['hash'], e['pass'], salt, e['count'], None if e.get('direct') else (cid, key))
            out += encode_packet(3, body, 'old' if step['framing'] == 'old' else 'new')
    if not out:
        return
    pre = seed('prefix', ralgo.block_size(cid))
    if step['container'] == 'sed':
        ct = renc.sed_encrypt(cid, key, inner, pre)
        ctx.probe('ref_sed_legacy')
        tag = 9
    else:
        ct = renc.seipd_encrypt(cid, key, inner, pre)
        tag = 18
    ch = [512] if step['framing'] == 'partial' and len(ct) > 600 else None
    if ch:
        ctx.probe('ref_partial_lengths')
    out += encode_packet(tag, ct, 'new' if (step['framing'] != 'old' or tag > 15) else 'old', chunks=ch)
    wire = transport(bytes(out), step.get('perturb', []), ctx)
    # sanity: the reference peer reads its own message
    want = encworld.shape_of(inner)
    for j, e in enumerate(step['esks']):
        kind = 'key' if e['t'] == 'pk' else 'pass'
        ctx.checked()
        try:
            m = pgpy.PGPMessage.from_blob(wire)
            if step.get('via_copy'):
                m = copy.copy(m)
                ctx.probe('decrypt_via_copy')
            dec = (copy.copy(R.keys[e['key']]) if step.get('via_copy') else R.keys[e['key']]).decrypt(m) if kind == 'key' else m.decrypt(e['pass'])
            dec_bytes = bytes(dec)
        except Exception as ex:
            if kind == 'key' and R.keys[e['key']].key_algorithm not in (1, 18) and not any(int(s.key_algorithm) in (1, 18) for s in R.keys[e['key']].subkeys.values()):
                continue
            ctx.viol('C03:foreign-undecryptable:%s:%s:%s' % (kind, step['container'], type(ex).__name__),
                     'PGPy (%s credential) cannot decrypt a reference-peer message (%s, cipher %d, framing %s, esks %s): %s: %s'
                     % (kind, step['container'], cid, step['framing'], [x['t'] + (':s2k%d' % x['s2k'] if x['t'] == 'sk' else '') for x in step['esks']],
                        type(ex).__name__, ex))
            continue
        _compare(ctx, 'PGPy reading a reference-peer message (%s)' % kind, want, dec_bytes, 'C03:foreign-roundtrip')
    shapes.append('R:%s:%s:%d:%d:%s' % (step['container'], step['framing'], cid, spec['compression'], spec['body']))
    ctx.event(step['id'], 'ref_encrypt', len(step['esks']), cid, spec['size'])
