"""C02 - signatures conform to RFC 4880 in both directions.

PGPy parties sign (every signature type PGPy can emit, the option space of
sign/certify/revoke/revoker/bind, all key algorithms, all usable hashes) under a
simulated clock; the artifact travels as octets over a channel that re-frames it
benignly (armor, old/new/5-octet headers, CRLF); PGPy re-imports and verifies; the
reference peer verifies the same octets against its own RFC 4880 5.2.4 hash input
and checks the left-16 field.  In the other direction the reference peer signs the
same kinds of subject with its own keys and PGPy must verify."""
import copy

from .. import bridge, seams, sigworld, world
from ..ref import armor as rarmor, sigs as rsigs, keys as rkeys
from ..ref.wire import WireError, encode_packet, split_packets
from .c05 import make_ref_key

ID = 'C02'
RULE = ('cases are histories of 4-14 steps: PGPy signing operations over generated keys/options/subjects, clock ticks, '
        'reference-peer signing operations; every artifact is exported, benignly re-framed, re-imported and verified by both '
        'implementations; a run is non-trivial when at least one artifact was verified by PGPy after the hop and by the '
        'reference peer; distinct = distinct (step-kind sequence, signature kinds, option-name sets) among non-trivial runs')
TIERS = {'quick': {'runs': 3000, 'budget_s': 70}, 'thorough': {'runs': 200000, 'budget_s': 1500}}
PROBES = ('direct_signature_over_subkey', 'key_form_selfsigs_checked', 'live_object_verified', 'kind_doc', 'kind_text', 'kind_timestamp', 'kind_msg', 'kind_cleartext', 'kind_cert_self', 'kind_cert_other',
          'kind_uattr_cert', 'kind_direct_other', 'kind_direct_self', 'kind_bind', 'kind_revoke_key', 'kind_revoke_subkey',
          'kind_revoke_uid', 'kind_revoker', 'kind_attest', 'ref_signed', 'ref_key_full_verify', 'perturb_armor', 'perturb_reframe',
          'perturb_crlf', 'sign_refused', 'rsa', 'dsa', 'ecdsa', 'eddsa', 'same_second_pair', 'subkey_signed')


def generate(rng, tier):
    keys = sigworld.gen_keys(rng)
    knames = sorted(keys)
    steps = []
    n = rng.randint(4, 14 if tier == 'thorough' else 9)
    for i in range(n):
        sid = 's%d' % i
        r = rng.random()
        if r < 0.62:
            st = sigworld.gen_sign_step(rng, sid, knames, full_options=rng.random() < 0.6)
            st['perturb'] = rng.sample(['armor', 'reframe_old', 'reframe_5', 'crlf'], rng.choice([0, 0, 1, 2]))
            steps.append(st)
        elif r < 0.8:
            steps.append({'id': sid, 'op': 'tick', 'delta_us': rng.choice([0, 250_000, 999_999, 1_000_000, 60_000_000, 86400_000_000,
                                                                          365 * 86400_000_000])})
        else:
            steps.append({'id': sid, 'op': 'ref_sign', 'keykind': rng.choice(['ed25519', 'ed25519', 'p256', 'p384', 'p521', 'secp256k1',
                                                                                'rsa2048', 'dsa2048', 'rsa2050']),
                          'kind': rng.choice(['doc', 'text', 'none', 'uid', 'key', 'keyrev', 'fullkey']),
                          'halg': rng.choice([8, 8, 10, 9, 11, 2, 1]),
                          'data': bytes(rng.randrange(256) for _ in range(rng.choice([0, 1, 33, 500]))).hex(),
                          'text': rng.choice(['', 'x', 'a\nb\n', 'a\r\nb', 'ünï ☃']),
                          'fmt': rng.choice(['new', 'old']), 'uid_empty': rng.random() < 0.1})
    return {'config': {'keys': keys, 'start_us': 1_600_000_000_000_000 + rng.choice([0, 500_000])}, 'steps': steps}


def simplify(case):
    for i, s in enumerate(case['steps']):
        if s['op'] == 'sign':
            if s.get('perturb'):
                c = copy.deepcopy(case)
                c['steps'][i]['perturb'] = []
                yield c
            for name in sorted(s.get('opts', {})):
                c = copy.deepcopy(case)
                del c['steps'][i]['opts'][name]
                yield c
            if s.get('hash') != 8:
                c = copy.deepcopy(case)
                c['steps'][i]['hash'] = 8
                yield c
    keys = case['config']['keys']
    used = set(s.get('key') for s in case['steps']) | set(s.get('target') for s in case['steps'])
    for k in sorted(keys):
        if k not in used and len(keys) > 1:
            c = copy.deepcopy(case)
            del c['config']['keys'][k]
            yield c
        if keys[k]['alg'] != 'ed25519':
            c = copy.deepcopy(case)
            c['config']['keys'][k]['alg'] = 'ed25519'
            yield c
        if len(keys[k]['uids']) > 1:
            c = copy.deepcopy(case)
            c['config']['keys'][k]['uids'] = keys[k]['uids'][:1]
            yield c
        if keys[k].get('subkeys'):
            c = copy.deepcopy(case)
            c['config']['keys'][k]['subkeys'] = keys[k]['subkeys'][:-1]
            yield c


# --- benign perturbations (P1/P2) -------------------------------------------------
def reframe_bytes(data, how):
    out = bytearray()
    for p in split_packets(data):
        if how == 'reframe_old' and p.tag < 16:
            out += encode_packet(p.tag, p.body, 'old', 2 if len(p.body) < 65536 else 4)
        elif how == 'reframe_5':
            out += encode_packet(p.tag, p.body, 'new', 5)
        else:
            out += encode_packet(p.tag, p.body, 'new')
    return bytes(out)


def perturb(art, kinds, ctx):
    a = art.copy()
    # framing changes first, armor (a text envelope around the final octets) last
    for k in sorted(kinds, key=lambda x: ({'armor': 1, 'crlf': 2}.get(x, 0), x)):
        if k in ('reframe_old', 'reframe_5'):
            if a.sig is not None:
                a.sig = reframe_bytes(a.sig, k)
            a.verifier = reframe_bytes(a.verifier, k)
            for f in ('keybytes', 'bytes'):
                if f in a.subject and a.subject['t'] != 'msg':
                    a.subject[f] = reframe_bytes(a.subject[f], k)
            ctx.perturb('reframe')
            ctx.probe('perturb_reframe')
        elif k == 'armor':
            if a.sig is not None:
                a.sig = rarmor.enarmor('SIGNATURE', a.sig, [('Comment', 'via channel')]).encode('ascii')
            a.verifier = rarmor.enarmor('PUBLIC KEY BLOCK', a.verifier).encode('ascii')
            if a.subject['t'] == 'msg':
                a.subject['bytes'] = rarmor.enarmor('MESSAGE', a.subject['bytes']).encode('ascii')
            ctx.perturb('armor')
            ctx.probe('perturb_armor')
        elif k == 'crlf':
            # CRLF line endings of armor text (cleartext messages over CRLF channels are C11's business)
            done = False
            for obj, f in ((a, 'sig'), (a, 'verifier')):
                v = getattr(obj, f)
                if v is not None and v[:5] == b'-----':
                    setattr(obj, f, v.replace(b'\n', b'\r\n'))
                    done = True
            if a.subject['t'] == 'msg' and a.subject['bytes'][:5] == b'-----':
                a.subject['bytes'] = a.subject['bytes'].replace(b'\n', b'\r\n')
                done = True
            if done:
                ctx.perturb('crlf')
                ctx.probe('perturb_crlf')
    return a


def dearmor_art(a):
    """The reference peer reads armor with its own decoder."""
    b = a.copy()
    if b.sig is not None and b.sig[:5] == b'-----':
        b.sig = rarmor.dearmor(b.sig.decode('ascii')).payload
    if b.verifier[:5] == b'-----':
        b.verifier = rarmor.dearmor(b.verifier.decode('ascii')).payload
    if b.subject['t'] == 'msg' and b.subject['bytes'][:5] == b'-----':
        b.subject['bytes'] = rarmor.dearmor(b.subject['bytes'].decode('ascii')).payload
    return b


def execute(case, ctx):
    import pgpy
    w = sigworld.SigWorld(case['config']['keys'], ctx)
    clock = seams.clock()
    clock.set(case['config'].get('start_us', 1_600_000_000_000_000))
    for k in w.keys.values():
        ctx.probe({1: 'rsa', 17: 'dsa', 19: 'ecdsa', 22: 'eddsa'}.get(int(k.key_algorithm), 'rsa'))
    # the self-certifications, bindings and revocations PGPy made while building the keys, in every form a key is handed on:
    # its own export, the export of its public half, the export of a copy - all must be valid for the independent verifier
    # (left 16 bits included)
    import copy as _copy
    from ..ref import tkey as rtkey
    for name in sorted(w.keys):
        k = w.keys[name]
        for form, blob in (('private', lambda: bytes(k)), ('public-half', lambda: bytes(k.pubkey)), ('copy', lambda: bytes(_copy.copy(k))),
                           ('copy-of-public-half', lambda: bytes(_copy.copy(k.pubkey)))):
            ctx.checked()
            ctx.probe('key_form_selfsigs_checked')
            tk = rtkey.parse_keys(blob())[0]
            bad = [note for comp, sg, ok, note in rtkey.check_self_sigs(tk, check_left16=True) if not ok]
            if bad:
                ctx.viol('C02:ref-rejects:key-selfsigs:%s' % form, 'the reference peer rejects %d self-signature(s) in the %s export of %s: %s'
                         % (len(bad), form, name, bad[:3]))
    kinds = []
    last_sig_second = None
    for step in case['steps']:
        ctx.step = step['id']
        ctx.steps_done += 1
        op = step['op']
        if op == 'tick':
            clock.advance(step['delta_us'])
            ctx.event(step['id'], 'tick', step['delta_us'])
            continue
        if op == 'ref_sign':
            _ref_sign(pgpy, step, case, ctx)
            continue
        seams.rnd().set_step(step['id'])
        art = w.produce(step)
        if art is None:
            ctx.probe('sign_refused')
            continue
        ctx.probe('kind_' + step['kind'])
        sec = clock.us // 1_000_000
        if last_sig_second == sec:
            ctx.probe('same_second_pair')
        last_sig_second = sec
        live = getattr(w, 'last_live', None)
        if live is not None and step['kind'] in ('doc', 'text', 'timestamp'):
            # the signature object as made, before any export: the signer's public half verifies it
            ctx.checked()
            ctx.probe('live_object_verified')
            try:
                lok = bool(w.keys[step['key']].pubkey.verify(live[0], live[1]))
            except Exception as e:
                ctx.viol('C02:own-rejected-live:%s:%s' % (step['kind'], type(e).__name__),
                         'PGPy cannot verify the %s signature object it has just made: %s: %s' % (step['kind'], type(e).__name__, e))
                lok = True
            if not lok:
                ctx.viol('C02:own-rejected-live:%s:falsy' % step['kind'], 'PGPy does not verify the %s signature object it has just made' % step['kind'])
        sent = perturb(art, step.get('perturb', []), ctx)
        # --- PGPy after the hop
        ctx.checked()
        try:
            res = w.pgpy_verify(sent)
            ok = bool(res)
            ngood = len(list(res.good_signatures))
        except Exception as e:
            ctx.viol('C02:own-rejected-after-hop:%s:%s' % (step['kind'], type(e).__name__),
                     'PGPy cannot verify its own %s signature after export/import: %s: %s' % (step['kind'], type(e).__name__, e))
            continue
        if not ok or ngood < 1:
            ctx.viol('C02:own-rejected-after-hop:%s:falsy' % step['kind'],
                     'PGPy does not verify its own %s signature after export/import (good=%d)' % (step['kind'], ngood))
        # --- reference peer on the same octets
        rv = sigworld.ref_view(dearmor_art(sent))
        ctx.checked()
        if rv.error:
            ctx.viol('C02:ref-unreadable:%s' % step['kind'], 'the reference peer cannot read PGPy\'s %s artifact: %s' % (step['kind'], rv.error))
        mine = 0
        for ent in rv.entries:
            sg, signer, subj = ent
            if signer is None:
                continue        # a co-signer's signature inside a message; verified with that signer's key below
            mine += 1
            if not sigworld.ref_valid(ent):
                ctx.viol('C02:ref-rejects:%s:type%02x' % (step['kind'], sg.type),
                         'the reference peer rejects PGPy\'s %s signature (type 0x%02x, pk alg %d, hash %d, options %s)'
                         % (step['kind'], sg.type, sg.pkalg, sg.halg, sorted(step.get('opts', {}))))
            if not rsigs.left16_ok(sg, subj):
                ctx.viol('C02:left16:%s' % step['kind'], 'left 16 bits of the hash are wrong in PGPy\'s %s signature' % step['kind'])
            if signer.fingerprint != bridge.ref_tkey(dearmor_art(sent).verifier).pub.fingerprint:
                ctx.probe('subkey_signed')
        if mine == 0:
            ctx.viol('C02:ref-no-signer:%s' % step['kind'], 'no signature in the artifact names a component of the signing key as issuer')
        if step['kind'] == 'msg' and getattr(art, 'signers', None):
            # every co-signer's signature must verify with that co-signer's key (both implementations)
            for vb in art.signers[1:]:
                a2 = dearmor_art(sent)
                a2.verifier = vb
                ents = [e for e in sigworld.ref_view(a2).entries if e[1] is not None]
                if not ents or not all(sigworld.ref_valid(e) for e in ents):
                    ctx.viol('C02:ref-rejects:msg:cosigner', 'the reference peer rejects a co-signer\'s inline signature')
        kinds.append(step['kind'] + ':' + ','.join(sorted(step.get('opts', {}))))
        ctx.event(step['id'], 'sign', step['kind'], 'ok', len(rv.entries))
    if kinds:
        ctx.mark_nontrivial('|'.join(kinds))


def _ref_sign(pgpy, step, case, ctx):
    created = 1_500_000_000
    uid = b'Reference Peer <ref@example.org>' if not step.get('uid_empty') else b''
    body, alg, secret = make_ref_key(step['keykind'], created, uid, case['run_seed'], label=step['id'])
    pub = rkeys.parse_pub(body)
    subkeys = []
    if step['kind'] == 'fullkey':
        sb, salg, ssec = make_ref_key('ed25519', created, uid, case['run_seed'], label=step['id'] + '.s')
        eb, ealg, esec = make_ref_key('cv25519', created, uid, case['run_seed'], label=step['id'] + '.e')
        subkeys = [(sb, salg, ssec, 0x02), (eb, ealg, esec, 0x0C)]
    tkb = bridge.build_ref_tkey(body, alg, secret, uid, created, halg=step['halg'], subkeys=subkeys)
    try:
        pkey = pgpy.PGPKey.from_blob(tkb)[0]
    except Exception as e:
        ctx.viol('C02:foreign-key-unreadable', 'PGPy cannot load a reference-peer transferable key: %s: %s' % (type(e).__name__, e))
    ctx.probe('ref_signed')
    ctx.checked()
    if step['kind'] == 'fullkey':
        ctx.probe('ref_key_full_verify')
        try:
            res = pkey.verify(pkey)
            ok = bool(res) and len(list(res.good_signatures)) >= 3
        except Exception as e:
            ok = e
        if ok is not True:
            ctx.viol('C02:foreign-selfsigs-rejected', 'PGPy does not verify the self-signatures/bindings of a reference-peer key: %r' % (ok,))
        ctx.event(step['id'], 'ref_sign', 'fullkey', 'ok')
        return
    hashed = rsigs.sp_created(created + 1000) + rsigs.sp_issuer_fpr(pub.fingerprint)
    unhashed = rsigs.sp_issuer(pub.keyid)
    k = step['kind']
    if k == 'doc':
        styp, subj_obj, subj_oct = 0x00, bytes.fromhex(step['data']), bytes.fromhex(step['data'])
    elif k == 'text':
        styp, subj_obj, subj_oct = 0x01, step['text'], rsigs.canon_text(step['text'].encode('utf-8'))
    elif k == 'none':
        styp, subj_obj, subj_oct = 0x02, None, b''
    elif k == 'uid':
        styp, subj_obj, subj_oct = 0x12, pkey.userids[0], rsigs.subject_uid(pub, uid)
    elif k == 'key':
        styp, subj_obj, subj_oct = 0x1F, pkey, rsigs.subject_key(pub)
    else:
        styp, subj_obj, subj_oct = 0x20, pkey, rsigs.subject_key(pub)
        hashed += rsigs.encode_subpacket(rsigs.SP_REASON, b'\x03retired')
    sbody = rsigs.sign(styp, pub, secret, step['halg'], hashed, unhashed, subj_oct)
    pkt = encode_packet(2, sbody, step.get('fmt', 'new'))
    try:
        psig = pgpy.PGPSignature.from_blob(pkt)
        ok = bool(pkey.verify(subj_obj, psig))
    except Exception as e:
        ok = e
    if ok is not True:
        ctx.viol('C02:foreign-rejected:type%02x' % styp, 'PGPy does not verify a valid reference-peer signature of type 0x%02x '
                 '(key %s, hash %d): %r' % (styp, step['keykind'], step['halg'], ok))
    ctx.event(step['id'], 'ref_sign', k, 'ok')
