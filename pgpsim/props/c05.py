"""C05 - the hashed subpacket area is verified verbatim, exactly as received.

A foreign signer (the reference peer) emits signatures whose hashed areas carry
arbitrary well-formed subpackets (every type 0..127, critical bit, all length
encodings, every flag octet, booleans 0/1/other, UTF-8 and non-UTF-8 text, any
order); the channel flips single bits inside the hashed region of signatures PGPy
accepted (F1).  Oracles: (direct) the tail of PGPSignature.hashdata() equals the
received octets version..hashed area + trailer; (behavioural) the unfaulted foreign
signature verifies, every flipped variant that PGPy still parses fails."""
import copy

from .. import bridge, seams, world
from ..ref import keys as rkeys, sigs as rsigs
from ..ref.wire import (WireError, encode_packet, encode_subpacket, max_declared_subpacket_length, split_packets,
                        split_subpackets)
from ..core import CallTimeout, watchdog

ID = 'C05'
RULE = ('cases are sequences of 2-10 foreign (reference-peer) or PGPy-made signatures with generated hashed areas, each '
        'delivered unfaulted and with drawn (quick) or swept (thorough) single-bit flips of the hashed region; a case is '
        'non-trivial when PGPy accepted a signature carrying a subpacket beyond creation time/issuer and both the hashdata '
        'comparison and the verify verdict were evaluated; distinct = distinct sequences of (signature type, sorted '
        'subpacket types) among non-trivial runs')
TIERS = {'quick': {'runs': 4000, 'budget_s': 60}, 'thorough': {'runs': 250000, 'budget_s': 1500}}
PROBES = ('altered_duplicate_judged_with_original', 'attestation_computed_over_received_signature', 'signature_object_reused', 'embedded_back_signature', 'verified_via_copy', 'unknown_subpacket_type', 'critical_bit', 'nonshortest_length', 'five_octet_length', 'two_octet_length',
          'boolean_other', 'boolean_true', 'flag_unknown_bits', 'multi_octet_flags', 'non_ascii_text', 'non_utf8_text',
          'rejected_at_parse', 'flip_rejected_at_parse', 'flip_verified_false', 'pgpy_made_reimported', 'empty_subpacket_body',
          'old_format_header', 'rsa_signer', 'dsa_signer', 'ecdsa_signer', 'eddsa_signer')

KEYKINDS = ['ed25519'] * 6 + ['p256', 'p384', 'p521', 'secp256k1'] + ['rsa2048', 'dsa2048']
# RIPEMD160 (3) is left out: the installed cryptography has no hashes.RIPEMD160, PGPy cannot use it here
HASHES = [8, 8, 8, 10, 9, 11, 2, 1]
TEXTS = ['', 'a', 'https://example.org/policy', 'café', '☃ snow', 'naïve <x@y.z>', 'x' * 190, 'y' * 300, '<[^>]+[@.]example\\.com>$']
KNOWN_TYPES = (2, 3, 4, 5, 6, 7, 9, 11, 12, 16, 20, 21, 22, 23, 24, 25, 26, 27, 28, 29, 30, 32, 33, 35, 37)


def _text(rng):
    r = rng.random()
    if r < 0.6:
        return rng.choice(TEXTS).encode('utf-8')
    if r < 0.8:
        return rng.choice(TEXTS).encode('latin-1', 'replace')       # bytes >= 0x80 that are not UTF-8
    return bytes(rng.randrange(256) for _ in range(rng.randrange(0, 24)))


def gen_subpacket(rng):
    r = rng.random()
    if r < 0.22:
        t = rng.choice([x for x in range(0, 128) if x not in KNOWN_TYPES])
        body = bytes(rng.randrange(256) for _ in range(rng.choice([0, 1, 2, 5, 20, 191, 192, 300])))
    else:
        t = rng.choice([3, 4, 5, 6, 7, 9, 11, 12, 20, 21, 22, 23, 24, 25, 26, 27, 28, 29, 30, 33, 35, 37])
        if t in (3, 9):
            body = rng.choice([0, 1, 3600, 86400 * 365, 2 ** 31, 2 ** 32 - 1]).to_bytes(4, 'big')
        elif t in (4, 7, 25):
            body = bytes([rng.choice([0, 0, 1, 1, 2, 0x80, 0xFF])])
        elif t == 5:
            body = bytes([rng.randrange(256), rng.randrange(256)])
        elif t == 6:
            body = _text(rng) + b'\x00'
        elif t in (24, 26, 28):
            body = _text(rng)
        elif t == 11:
            # now and then an algorithm id PGPy does not know: it refuses such packets at parse time
            body = bytes(rng.choice([1, 2, 3, 4, 7, 8, 9, 10, 11, 12, 13] + ([99] if rng.random() < 0.1 else []))
                         for _ in range(rng.randrange(0, 6)))
        elif t == 21:
            body = bytes(rng.choice([1, 2, 3, 8, 9, 10, 11]) for _ in range(rng.randrange(0, 6)))
        elif t == 22:
            body = bytes(rng.choice([0, 1, 2, 3]) for _ in range(rng.randrange(0, 5)))
        elif t == 12:
            body = bytes([rng.choice([0x80, 0xC0, 0x81, 0xFF]), rng.choice([1, 17, 19, 22])]) + bytes(rng.randrange(256) for _ in range(20))
        elif t == 20:
            name = rng.choice([b'a@b', b'preferred-email-encoding@pgp.com', 'näme@x'.encode('utf-8'), b''])
            human = rng.random() < 0.7
            val = _text(rng) if human else bytes(rng.randrange(256) for _ in range(rng.randrange(0, 12)))
            fl = bytes([0x80 if human else rng.choice([0, 0, 1, 0x40])]) + bytes(rng.choice([0, 0, 0, 1]) for _ in range(3))
            body = fl + len(name).to_bytes(2, 'big') + len(val).to_bytes(2, 'big') + name + val
        elif t in (23, 27, 30):
            n = rng.choice([1, 1, 1, 1, 2, 3, 0])
            body = bytes(rng.choice([0, 1, 2, 3, 0x0C, 0x20, 0x40, 0x42, 0x80, 0xFF, rng.randrange(256)]) for _ in range(n))
        elif t == 29:
            body = bytes([rng.choice([0, 1, 2, 3, 32])]) + _text(rng)
        elif t in (33, 35):
            body = b'\x04' + bytes(rng.randrange(256) for _ in range(20))
        elif t == 37:
            body = bytes(rng.randrange(256) for _ in range(32 * rng.randrange(0, 3)))
        else:      # pragma: no cover
            body = b''
    n = len(body) + 1
    lenenc = None
    q = rng.random()
    if q < 0.12:
        lenenc = 5
    elif q < 0.2 and n >= 192:
        lenenc = 2
    return {'t': t, 'crit': rng.random() < 0.12, 'body': body.hex(), 'lenenc': lenenc}


def generate(rng, tier):
    kind = rng.choice(KEYKINDS)
    created = rng.choice([1_300_000_000, 1_500_000_000, 1_599_999_000])
    steps = []
    n = rng.randint(2, 10 if tier == 'thorough' else 6)
    for i in range(n):
        sid = 's%d' % i
        if rng.random() < 0.12:
            steps.append({'id': sid, 'op': 'pgpy_sign',
                          'opts': rng.sample(['notation', 'notation_utf8', 'policy', 'policy_utf8', 'expires', 'revocable_false', 'user'],
                                             rng.randint(0, 3)),
                          'text': rng.choice(['hello', 'l1\nl2\n', '']), 'hash': rng.choice(['SHA256', 'SHA512', 'SHA1'])})
            continue
        if rng.random() < 0.12:
            # a signing subkey whose binding carries an embedded primary-key-binding signature (0x19) with a drawn hashed area
            sps = [gen_subpacket(rng) for _ in range(rng.choice([0, 1, 2, 3]))]
            sps.insert(rng.randrange(len(sps) + 1), {'t': 2, 'crit': False, 'body': (created + 5).to_bytes(4, 'big').hex(),
                                                     'lenenc': 5 if rng.random() < 0.2 else None})
            steps.append({'id': sid, 'op': 'ref_backsig', 'halg': rng.choice(HASHES), 'hashed': sps,
                          'faults': [{'kind': 'F1', 'pos': rng.random()} for _ in range(rng.choice([0, 2, 4]))],
                          'via_copy': rng.random() < 0.4})
            continue
        sk = rng.choice(['doc', 'doc', 'text', 'none', 'uid', 'uid', 'key', 'uidrev', 'keyrev'])
        if sk == 'doc':
            styp, subj = 0x00, {'kind': 'doc', 'data': bytes(rng.randrange(256) for _ in range(rng.choice([0, 1, 17, 200]))).hex()}
        elif sk == 'text':
            styp, subj = 0x01, {'kind': 'text', 'value': rng.choice(['', 'one line', 'a\nb\n', 'a\r\nb', 'träiling \n']),
                                   'as': rng.choice(['str', 'str', 'bytes', 'bytearray'])}
        elif sk == 'none':
            styp, subj = rng.choice([0x02, 0x40]), {'kind': 'none'}
        elif sk == 'uid':
            styp, subj = rng.choice([0x10, 0x11, 0x12, 0x13]), {'kind': 'uid'}
        elif sk == 'uidrev':
            styp, subj = 0x30, {'kind': 'uid'}
        elif sk == 'key':
            styp, subj = 0x1F, {'kind': 'key'}
        else:
            styp, subj = 0x20, {'kind': 'key'}
        nsp = rng.choice([0, 1, 1, 2, 3, 5, 8])
        sps = [gen_subpacket(rng) for _ in range(nsp)]
        # mandatory creation time somewhere in the hashed area; issuer hashed or unhashed
        ct = {'t': 2, 'crit': rng.random() < 0.1, 'body': (created + rng.randrange(0, 10 ** 6)).to_bytes(4, 'big').hex(),
              'lenenc': 5 if rng.random() < 0.08 else None}
        sps.insert(rng.randrange(len(sps) + 1), ct)
        issuer_hashed = rng.random() < 0.3
        fpr = rng.random() < 0.5
        nflips = 0 if rng.random() < 0.2 else rng.choice([2, 4, 6])
        steps.append({'id': sid, 'op': 'ref_sign', 'sigtype': styp, 'halg': rng.choice(HASHES), 'subject': subj, 'hashed': sps,
                      'issuer_hashed': issuer_hashed, 'issuer_fpr': fpr, 'fmt': rng.choice(['new', 'new', 'old']),
                      'faults': [{'kind': 'F1', 'pos': rng.random()} for _ in range(nflips)],
                      'sweep': tier == 'thorough' and rng.random() < 0.05, 'via_copy': rng.random() < 0.4,
                      'reuse_object': rng.random() < 0.25, 'attest_then_recheck': rng.random() < 0.4, 'dup_in_key': rng.random() < 0.5})
    return {'config': {'keykind': kind, 'created': created, 'uid': rng.choice(['Foreign Signer <f@example.org>', 'Søren <s@example.org>'])},
            'steps': steps}


def simplify(case):
    import copy
    for i, s in enumerate(case['steps']):
        if s['op'] != 'ref_sign':
            continue
        if len(s['hashed']) > 1:
            for j in range(len(s['hashed'])):
                if s['hashed'][j]['t'] == 2:
                    continue
                c = copy.deepcopy(case)
                del c['steps'][i]['hashed'][j]
                yield c
        if len(s.get('faults', [])) > 1:
            for j in range(len(s['faults'])):
                c = copy.deepcopy(case)
                c['steps'][i]['faults'] = [s['faults'][j]]
                yield c
        for j, sp in enumerate(s['hashed']):
            if sp.get('lenenc') or sp.get('crit'):
                c = copy.deepcopy(case)
                c['steps'][i]['hashed'][j]['lenenc'] = None
                c['steps'][i]['hashed'][j]['crit'] = False
                yield c
        if s['subject']['kind'] != 'none':
            c = copy.deepcopy(case)
            c['steps'][i]['subject'] = {'kind': 'none'}
            c['steps'][i]['sigtype'] = 0x02
            yield c
        if s['halg'] != 8:
            c = copy.deepcopy(case)
            c['steps'][i]['halg'] = 8
            yield c
    if case['config']['keykind'] != 'ed25519':
        c = copy.deepcopy(case)
        c['config']['keykind'] = 'ed25519'
        yield c


# ---------------------------------------------------------------------------
def make_ref_key(kind, created, uid, run_seed, label='signer'):
    seed = seams.derive(run_seed, 'refkey:' + label, kind, 80)
    if kind.startswith('rsa'):
        lst = seams.pool()['rsa'][kind[3:]]
        body, alg, secret = rkeys.rsa_from_pool(lst[seed[0] % len(lst)], created)
    elif kind.startswith('dsa'):
        lst = seams.pool()['dsa'][kind[3:]]
        body, alg, secret = rkeys.dsa_from_pool(lst[seed[0] % len(lst)], created, seed[1:41])
    elif kind.startswith('elg'):
        lst = seams.pool()['dsa'][kind[3:]]
        body, alg, secret = rkeys.elg_from_pool(lst[seed[0] % len(lst)], created, seed[1:41])
    else:
        body, alg, secret = rkeys.gen_key(kind, created, seed[:72] if kind not in ('ed25519', 'cv25519') else seed[:32])
    return body, alg, secret


def _sp_bytes(sp):
    return encode_subpacket(sp['t'], bytes.fromhex(sp['body']), sp.get('crit', False), sp.get('lenenc'))


def _field_of(off, hashed):
    """Name the field that body offset `off` (inside version..hashed area) falls in."""
    if off < 4:
        return ('version', 'type', 'pkalg', 'halg')[off]
    if off < 6:
        return 'hlen'
    rel = off - 6
    for sp in split_subpackets(hashed):
        if sp.off <= rel < sp.off + len(sp.raw):
            inner = rel - sp.off
            part = 'len' if inner < sp.lenenc else 'type' if inner == sp.lenenc else 'body'
            return 'sp%d:%s' % (sp.type, part)
    return 'hashed'


def _first_diff_type(received_hdr, got_tail_hdr):
    """Which subpacket's re-serialisation differs first (for a narrow finding signature)."""
    try:
        a = split_subpackets(received_hdr[6:])
        b = split_subpackets(got_tail_hdr[6:]) if len(got_tail_hdr) >= 6 else []
    except WireError:
        return 'unparsable'
    for x, y in zip(a, b):
        if x.raw != y.raw:
            if x.type != y.type:
                return 'order'
            if x.body == y.body:
                return 'sp%d:length-encoding' % x.type if x.critical == y.critical else 'sp%d:critical' % x.type
            return 'sp%d:value' % x.type
    if len(a) != len(b):
        return 'count'
    if received_hdr[:6] != got_tail_hdr[:6]:
        return 'header'
    return 'unknown'


def execute(case, ctx):
    import pgpy
    cfg = case['config']
    uid_octets = cfg['uid'].encode('utf-8')
    body, alg, secret = make_ref_key(cfg['keykind'], cfg['created'], cfg['uid'], case['run_seed'])
    pub = rkeys.parse_pub(body)
    ctx.probe({rkeys.RSA_ES: 'rsa_signer', rkeys.DSA: 'dsa_signer', rkeys.ECDSA: 'ecdsa_signer', rkeys.EDDSA: 'eddsa_signer'}[alg])
    tkb = bridge.build_ref_tkey(body, alg, secret, uid_octets, cfg['created'])
    seams.clock().set((cfg['created'] + 2_000_000) * 1_000_000)
    pkey = pgpy.PGPKey.from_blob(tkb)[0]
    pgpy_priv = None
    shapes = []
    for step in case['steps']:
        ctx.step = step['id']
        ctx.steps_done += 1
        if step['op'] == 'pgpy_sign':
            if pgpy_priv is None:
                pgpy_priv = world.build_key({'alg': 'ed25519', 'uids': [['Local', 'c', 'l@example.org']], 'usage': 'CS'}, 'c05local')
            _pgpy_reimport(pgpy, pgpy_priv, step, ctx)
            continue
        if step['op'] == 'ref_backsig':
            _ref_backsig_step(pgpy, body, alg, secret, pub, uid_octets, cfg, step, case, ctx, shapes)
            continue
        _ref_sign_step(pgpy, pkey, pub, secret, uid_octets, step, ctx, shapes)
    if shapes:
        ctx.mark_nontrivial(';'.join(shapes))


def _ref_backsig_step(pgpy, body, alg, secret, pub, uid_octets, cfg, step, case, ctx, shapes):
    """A reference-peer key with a signing subkey: the embedded back signature is a signature like any other - its hashed area
    is verified as received, and a changed bit in it is noticed."""
    created = cfg['created']
    sb, salg, ssec = make_ref_key('ed25519', created, b'', case['run_seed'], label=step['id'] + '.sub')
    spub = rkeys.parse_pub(sb)
    subj = rsigs.subject_subkey(pub, spub)
    eh = b''.join(_sp_bytes(sp) for sp in step['hashed']) + rsigs.sp_issuer_fpr(spub.fingerprint)
    if len(eh) > 60000 or max_declared_subpacket_length(eh) > 70000:
        return
    emb = rsigs.sign(0x19, spub, ssec, step['halg'], eh, rsigs.sp_issuer(spub.keyid), subj)
    base = bridge.build_ref_tkey(body, alg, secret, uid_octets, created)

    def key_with(embedded):
        h = rsigs.sp_created(created) + rsigs.sp_keyflags(0x02) + rsigs.sp_issuer_fpr(pub.fingerprint)
        uh = rsigs.sp_issuer(pub.keyid) + encode_subpacket(32, embedded)
        return base + encode_packet(14, sb) + encode_packet(2, rsigs.sign(0x18, pub, secret, 8, h, uh, subj))

    def judge(blob):
        K = pgpy.PGPKey.from_blob(blob)[0]
        if step.get('via_copy'):
            K = copy.copy(K)
        sk = list(K.subkeys.values())[0]
        res = K.verify(sk)
        return bool(res), len(list(res.good_signatures)), len(list(res.bad_signatures))

    # values PGPy refuses to represent (e.g. an unassigned algorithm id in a preference list) make it reject the signature
    # packet as such, embedded or not; that refusal is tolerated here exactly as for top-level signatures
    try:
        alone = pgpy.PGPSignature.from_blob(encode_packet(2, emb))
        _ = alone.type, alone.created, alone.signer
    except Exception as e:
        ctx.probe('rejected_at_parse')
        ctx.event(step['id'], 'ref_backsig', 'rejected', type(e).__name__)
        return
    ctx.probe('embedded_back_signature')
    ctx.checked()
    try:
        ok, ngood, nbad = judge(key_with(emb))
    except Exception as e:
        ok, ngood, nbad = e, 0, 0
    if ok is not True or nbad:
        ctx.viol('C05:foreign-valid-rejected:embedded19', 'a valid embedded primary-key-binding signature (hashed subpacket types %s%s) makes '
                 'verify(subkey) fail under PGPy: %r' % (sorted(set(sp['t'] for sp in step['hashed'])), ', via a copy' if step.get('via_copy') else '', ok))
    ctx.event(step['id'], 'ref_backsig', 'accepted' if ok is True else 'rejected')
    shapes.append('19:%s' % ','.join(str(sp['t']) for sp in step['hashed']))
    es = rsigs.parse_sig(emb)
    region = len(es.header_octets())
    for f in step.get('faults', []):
        bit = int(f['pos'] * region * 8) % (region * 8)
        off, b = divmod(bit, 8)
        mut = bytearray(emb)
        mut[off] ^= 1 << b
        hl = int.from_bytes(mut[4:6], 'big')
        if max_declared_subpacket_length(bytes(mut[6:6 + hl])) > 70000:
            ctx.probe('flip_skipped_giant_length')
            continue
        try:
            if rsigs.verify(rsigs.parse_sig(bytes(mut)), spub, subj):
                continue
        except (WireError, Exception):
            pass
        ctx.fault('F1')
        try:
            with watchdog(30):
                ok2, ngood2, nbad2 = judge(key_with(bytes(mut)))
        except CallTimeout:
            ctx.probe('pgpy_call_timeout')
            continue
        except Exception:
            ctx.probe('flip_rejected_at_parse')
            continue
        ctx.checked()
        if ok2 and ngood2 >= 2:
            ctx.viol('C05:flip-accepted:embedded19', 'flipping bit %d of octet %d of the hashed region of an embedded back signature: '
                     'verify(subkey) is still truthy with %d good signatures' % (b, off, ngood2))
        ctx.probe('flip_verified_false')


def _subject(pgpy, pkey, pub, uid_octets, subj):
    k = subj['kind']
    if k == 'doc':
        d = bytes.fromhex(subj['data'])
        return d, d
    if k == 'text':
        # the text document may reach verify() as str or as its octets: the line-ending conversion is applied to the document,
        # never to the signature's own octets
        octs = subj['value'].encode('utf-8')
        given = {'bytes': octs, 'bytearray': bytearray(octs)}.get(subj.get('as'), subj['value'])
        return given, rsigs.canon_text(octs)
    if k == 'none':
        return None, b''
    if k == 'uid':
        return pkey.userids[0], rsigs.subject_uid(pub, uid_octets)
    if k == 'key':
        return pkey, rsigs.subject_key(pub)
    raise ValueError(k)


def _ref_sign_step(pgpy, pkey, pub, secret, uid_octets, step, ctx, shapes):
    tkb_for_dups = bytes(pkey) if step.get('dup_in_key') else b''
    hashed = b''.join(_sp_bytes(sp) for sp in step['hashed'])
    unhashed = b''
    iss = rsigs.sp_issuer(pub.keyid)
    if step.get('issuer_hashed'):
        hashed += iss
    else:
        unhashed += iss
    if step.get('issuer_fpr'):
        hashed += rsigs.sp_issuer_fpr(pub.fingerprint)
    if len(hashed) > 65535:
        return
    subj_obj, subj_oct = _subject(pgpy, pkey, pub, uid_octets, step['subject'])
    styp = step['sigtype']
    sbody = rsigs.sign(styp, pub, secret, step['halg'], hashed, unhashed, subj_oct)
    rs = rsigs.parse_sig(sbody)
    if not rsigs.verify(rs, pub, subj_oct, check_left16=True):
        raise RuntimeError('reference peer cannot verify its own signature')
    pkt = encode_packet(2, sbody, 'old' if step.get('fmt') == 'old' and len(sbody) < 65536 else 'new')
    if step.get('fmt') == 'old':
        ctx.probe('old_format_header')
    for sp in step['hashed']:
        b = bytes.fromhex(sp['body'])
        if sp['t'] not in KNOWN_TYPES:
            ctx.probe('unknown_subpacket_type')
        if sp.get('crit'):
            ctx.probe('critical_bit')
        if sp.get('lenenc') == 5:
            ctx.probe('five_octet_length')
            if len(b) + 1 < 16320:
                ctx.probe('nonshortest_length')
        if sp.get('lenenc') == 2:
            ctx.probe('two_octet_length')
        if sp['t'] in (4, 7, 25) and b and b[0] == 1:
            ctx.probe('boolean_true')
        if sp['t'] in (4, 7, 25) and b and b[0] > 1:
            ctx.probe('boolean_other')
        if sp['t'] in (23, 27, 30) and len(b) > 1:
            ctx.probe('multi_octet_flags')
        if sp['t'] == 27 and b and b[0] & 0x40:
            ctx.probe('flag_unknown_bits')
        if sp['t'] in (6, 24, 26, 28, 29, 20) and any(x >= 0x80 for x in b):
            ctx.probe('non_ascii_text')
            try:
                b.decode('utf-8')
            except UnicodeDecodeError:
                ctx.probe('non_utf8_text')
        if not b:
            ctx.probe('empty_subpacket_body')
    # ---- unfaulted delivery
    try:
        psig = pgpy.PGPSignature.from_blob(pkt)
        _ = psig.type, psig.created, psig.signer
    except Exception as e:
        ctx.probe('rejected_at_parse')
        ctx.event(step['id'], 'ref_sign', 'rejected', type(e).__name__)
        return
    want_tail = rs.trailer()
    hd = getattr(psig, 'hashdata', None)
    verdict = None
    if hd is not None:
        ctx.checked()
        try:
            got = hd(subj_obj)
        except Exception as e:
            got = None
            ctx.event(step['id'], 'hashdata-raised', type(e).__name__)
        if got is not None and not bytes(got).endswith(want_tail):
            got = bytes(got)
            # cut PGPy's own header+hashed part out of what it hashes (it ends with 04 ff <len4>)
            ln = int.from_bytes(got[-4:], 'big') if len(got) >= 6 else 0
            tail_hdr = got[-6 - ln:-6] if 0 < ln <= len(got) - 6 else b''
            cause = _first_diff_type(rs.header_octets(), tail_hdr)
            ctx.viol('C05:renormalised:%s' % cause,
                     'PGPy hashes %d octets for the signature header+hashed area, the packet carried %d different ones (%s)'
                     % (len(tail_hdr), len(rs.header_octets()), cause))
    ctx.checked()
    try:
        verdict = bool(pkey.verify(subj_obj, psig))
    except Exception as e:
        verdict = e
    if verdict is not True:
        types = sorted(set(sp['t'] for sp in step['hashed']) - {2})
        ctx.viol('C05:foreign-valid-rejected:type%02x' % styp,
                 'a valid foreign signature (type 0x%02x, hashed subpacket types %s) does not verify under PGPy: %r' % (styp, types, verdict))
    via_copy = bool(step.get('via_copy'))
    if via_copy:
        # the object the caller verifies is often not the parsed one but a copy of it (copy.copy of a signature or key,
        # the public half of a secret key): the copy must still hash the received octets
        ctx.probe('verified_via_copy')
        ctx.checked()
        try:
            verdict = bool(pkey.verify(subj_obj, copy.copy(psig)))
        except Exception as e:
            verdict = e
        if verdict is not True:
            ctx.viol('C05:foreign-valid-rejected-after-copy:type%02x' % styp,
                     'a copy of a valid foreign signature (type 0x%02x) does not verify under PGPy although the parsed object does: %r'
                     % (styp, verdict))
    if step.get('attest_then_recheck') and styp in (0x10, 0x11, 0x12, 0x13) and verdict is True:
        # the certification takes part in an attestation computation (another key attests to it); afterwards it is still the
        # signature that was received: same octets out, same verdict
        ctx.probe('attestation_computed_over_received_signature')
        ctx.checked()
        before = bytes(psig)
        try:
            local = world.build_key({'alg': 'ed25519', 'uids': [['Attester', '', 'a@example.org']], 'usage': 'CS'}, 'c05attester')
            local.certify(local.userids[0], pgpy.constants.SignatureType.Attestation, attested_certifications=[psig])
            local.certify(local.userids[0], pgpy.constants.SignatureType.Attestation, attested_certifications=[psig])
        except Exception as e:
            ctx.event(step['id'], 'attest-raised', type(e).__name__)
        try:
            after_ok = bool(pkey.verify(subj_obj, psig))
        except Exception as e:
            after_ok = e
        if bytes(psig) != before or after_ok is not True:
            ctx.viol('C05:changed-by-attestation', 'after an attestation was computed over a received certification it %s'
                     % ('exports other octets (%d -> %d)' % (len(before), len(bytes(psig))) if bytes(psig) != before else 'no longer verifies: %r' % (after_ok,)))
    ctx.event(step['id'], 'ref_sign', 'accepted', 'type%02x' % styp, len(hashed))
    types = sorted(set(sp['t'] for sp in step['hashed']) - {2})
    if types:
        shapes.append('%02x:%s' % (styp, ','.join(map(str, types))))
    # ---- F1: single-bit flips inside version..hashed area
    region = len(rs.header_octets())
    positions = []
    if step.get('sweep') and region <= 200:
        positions = list(range(region * 8))
    else:
        for f in step.get('faults', []):
            positions.append(int(f['pos'] * region * 8) % (region * 8))
    hdrlen = len(pkt) - len(sbody)
    for bit in positions:
        off, b = divmod(bit, 8)
        mut = bytearray(pkt)
        mut[hdrlen + off] ^= 1 << b
        field = _field_of(off, rs.hashed)
        # a flip that makes a subpacket header declare a huge length turns PGPy's parse loops into
        # minutes of work; cost (not verdict) would then depend on machine speed, so these are skipped
        mb = bytes(mut[hdrlen:])
        hl = int.from_bytes(mb[4:6], 'big')
        if max_declared_subpacket_length(mb[6:6 + hl]) > 70000 or \
                max_declared_subpacket_length(mb[8 + hl:8 + hl + int.from_bytes(mb[6 + hl:8 + hl], 'big')]) > 70000:
            ctx.probe('flip_skipped_giant_length')
            continue
        ctx.fault('F1')
        try:
            rm = rsigs.parse_sig(bytes(mut[hdrlen:]))
            if rsigs.verify(rm, pub, subj_oct):
                continue            # not a semantic change (cannot happen short of a hash collision)
        except (WireError, Exception):
            pass
        try:
            with watchdog(30):
                if step.get('reuse_object'):
                    # the caller loads the next packet into the signature object it already has (and has verified with)
                    psig.parse(bytearray(mut))
                    msig = psig
                    ctx.probe('signature_object_reused')
                else:
                    msig = pgpy.PGPSignature.from_blob(bytes(mut))
                if via_copy:
                    msig = copy.copy(msig)
                ok = bool(pkey.verify(subj_obj, msig))
        except CallTimeout:
            ctx.probe('pgpy_call_timeout')
            continue
        except Exception:
            ctx.probe('flip_rejected_at_parse')
            continue
        ctx.checked()
        if not ok and step.get('dup_in_key') and step['subject']['kind'] == 'uid' and styp in (0x10, 0x11, 0x12, 0x13):
            # the genuine certification and the altered copy (same signature integers) arrive together on the user id of one
            # key and are judged in one call: each by its own octets
            ctx.probe('altered_duplicate_judged_with_original')
            try:
                with watchdog(30):
                    K2 = pgpy.PGPKey.from_blob(tkb_for_dups + pkt + bytes(mut))[0]
                    r2 = K2.verify(K2.userids[0])
                    mine = bytes(mut[hdrlen:])
                    listed_good = [g for g in r2.good_signatures if bytes(g.signature)[-len(mine):] == mine]
                if listed_good:
                    ok = True
                    field = field + ':next-to-original'
            except (CallTimeout, Exception):
                pass
        if ok:
            ctx.viol('C05:flip-accepted:%s' % field.split(':')[0] if field.startswith('sp') else 'C05:flip-accepted:%s' % field,
                     'flipping bit %d of octet %d (%s) of the hashed region of an accepted signature still verifies' % (b, off, field))
        ctx.probe('flip_verified_false')


def _pgpy_reimport(pgpy, priv, step, ctx):
    import datetime
    kw = {}
    o = step['opts']
    if 'notation' in o:
        kw['notation'] = {'a@example.org': 'plain'}
    if 'notation_utf8' in o:
        kw['notation'] = {'a@example.org': 'café ☃'}
    if 'policy' in o:
        kw['policy_uri'] = 'https://example.org/p'
    if 'policy_utf8' in o:
        kw['policy_uri'] = 'https://example.org/über'
    if 'expires' in o:
        kw['expires'] = datetime.timedelta(days=30)
    if 'revocable_false' in o:
        kw['revocable'] = False
    if 'user' in o:
        kw['user'] = 'Local'
    try:
        sig = priv.sign(step['text'], hash=getattr(pgpy.constants.HashAlgorithm, step['hash']), **kw)
        raw = bytes(sig)
    except Exception as e:
        ctx.event(step['id'], 'pgpy_sign', 'raised', type(e).__name__)
        return
    ctx.probe('pgpy_made_reimported')
    try:
        rs = bridge.ref_sig(raw)
        back = pgpy.PGPSignature.from_blob(raw)
        got = bytes(back.hashdata(step['text']))
    except Exception as e:
        ctx.event(step['id'], 'pgpy_sign', 'reimport-raised', type(e).__name__)
        # PGPy cannot re-read its own packet: C08/C02 territory, not judged here
        return
    ctx.checked()
    if not got.endswith(rs.trailer()):
        ln = int.from_bytes(got[-4:], 'big')
        tail_hdr = got[-6 - ln:-6] if 0 < ln <= len(got) - 6 else b''
        cause = _first_diff_type(rs.header_octets(), tail_hdr)
        ctx.viol('C05:renormalised-own:%s' % cause, 'after export/import PGPy hashes other octets than its own packet carries (%s)' % cause)
    ctx.event(step['id'], 'pgpy_sign', 'ok', len(rs.hashed))
