"""Run context, run wrapper and result record shared by all property modules."""
import gc
import hashlib
import importlib
import json
import os
import random
import sys
import traceback
import warnings

from . import seams

VERIF = os.path.dirname(os.path.dirname(os.path.abspath(__file__)))
REPO = os.environ.get('PGPSIM_REPO', '/repo')

ENV_CLASSES = (
    # (PYTHONHASHSEED offset, TZ); class 0 is the canonical one
    (0, 'UTC'),
    (1, 'America/St_Johns'),      # -3:30/-2:30 with DST
    (2, 'Asia/Kolkata'),          # +5:30
    (3, 'Europe/Berlin'),         # +1/+2 with DST
)


def env_for(base_seed, index):
    cls = index % len(ENV_CLASSES)
    off, tz = ENV_CLASSES[cls]
    hs = 0 if cls == 0 else (base_seed * 31 + off * 7919) % 4294967295
    return cls, hs, tz


def run_seed_for(base_seed, prop, index):
    h = hashlib.sha256(('%d|%s|%d' % (base_seed, prop, index)).encode()).digest()
    return int.from_bytes(h[:8], 'big')


class Violation(BaseException):
    """Not an Exception subclass: executors wrap PGPy calls in broad `except Exception` clauses and
    a reported violation must never be swallowed by one of those."""

    def __init__(self, signature, message, step=None):
        BaseException.__init__(self, message)
        self.signature = signature
        self.message = message
        self.step = step


class HarnessError(Exception):
    pass


class CallTimeout(BaseException):
    """A single PGPy call exceeded the watchdog (e.g. a loop over a corrupted 32-bit length)."""


class watchdog(object):
    """with watchdog(20): pgpy_call()  -- raises CallTimeout inside the call.  Safety net only:
    generators avoid inputs whose cost depends on a corrupted length, so that verdicts never
    depend on machine speed."""

    def __init__(self, seconds=20):
        self.seconds = seconds

    def _fire(self, signum, frame):
        raise CallTimeout()

    def __enter__(self):
        import signal
        self._old = signal.signal(signal.SIGALRM, self._fire)
        signal.setitimer(signal.ITIMER_REAL, self.seconds)
        return self

    def __exit__(self, *exc):
        import signal
        signal.setitimer(signal.ITIMER_REAL, 0)
        signal.signal(signal.SIGALRM, self._old)
        return False


class Ctx(object):
    def __init__(self, prop, run_seed, known=(), collect_all=False):
        self.prop = prop
        self.run_seed = run_seed
        self.known = set(known)           # open known-finding signatures (masked)
        self.events = []
        self.probes = {}
        self.faults = {}
        self.perturbs = {}
        self.nontrivial = set()
        self.violation = None
        self.known_hit = None
        self.oracle_evals = 0
        self.steps_done = 0
        self.collect_all = collect_all
        self.all_violations = []
        self.step = None

    # ---- recording -----------------------------------------------------
    def event(self, *fields):
        self.events.append('|'.join(str(f) for f in fields))

    def probe(self, name, n=1):
        self.probes[name] = self.probes.get(name, 0) + n

    def fault(self, kind, n=1):
        self.faults[kind] = self.faults.get(kind, 0) + n

    def perturb(self, kind, n=1):
        self.perturbs[kind] = self.perturbs.get(kind, 0) + n

    def mark_nontrivial(self, key):
        self.nontrivial.add(str(key))

    def checked(self, n=1):
        self.oracle_evals += n

    def viol(self, signature, message, step=None):
        """Report a property violation.  Ends the run (state after a real
        defect is no basis for further verdicts)."""
        if step is None:
            step = self.step
        if self.collect_all:
            self.all_violations.append((signature, message, step))
            return
        raise Violation(signature, message, step)

    def digest(self):
        h = hashlib.sha256()
        for e in self.events:
            h.update(e.encode('utf-8', 'backslashreplace'))
            h.update(b'\n')
        return h.hexdigest()


def _artifact_errors():
    from .ref.wire import WireError
    from .ref.armor import ArmorError
    return (WireError, ArmorError)


def load_prop(prop):
    return importlib.import_module('pgpsim.props.' + prop.lower())


def tree_id():
    import subprocess
    try:
        head = subprocess.run(['git', '-C', REPO, 'rev-parse', 'HEAD'], capture_output=True, text=True, timeout=20).stdout.strip()
        diff = subprocess.run(['git', '-C', REPO, 'diff', 'HEAD', '--', 'pgpy'], capture_output=True, timeout=20).stdout
        return {'head': head, 'dirty_sha': hashlib.sha256(diff).hexdigest()[:16] if diff else ''}
    except Exception:   # pragma: no cover
        return {'head': '?', 'dirty_sha': '?'}


def run_case(prop, case, known=(), collect_all=False):
    """Execute one fully resolved case.  Returns a result dict.  Never raises
    for property violations; harness bugs come back as result['harness_error']."""
    mod = load_prop(prop)
    run_seed = case['run_seed']
    ctx = Ctx(prop, run_seed, known, collect_all)
    seams.install()
    clock, rnd, fs = seams.reset(run_seed, case.get('config', {}).get('start_us', 1_600_000_000_000_000))
    seams.set_s2k_count(case.get('config', {}).get('s2k_count', 16))
    was_gc = gc.isenabled()
    gc.disable()
    t0 = clock.us
    res = {'run_seed': run_seed, 'violation': None, 'known': None, 'harness_error': None}
    try:
        with warnings.catch_warnings():
            warnings.simplefilter('ignore')
            import logging
            logging.disable(logging.CRITICAL)
            try:
                mod.execute(case, ctx)
            except Violation as v:
                if v.signature in ctx.known:
                    res['known'] = {'signature': v.signature, 'message': v.message, 'step': v.step}
                else:
                    res['violation'] = {'signature': v.signature, 'message': v.message, 'step': v.step}
                ctx.event('END', v.signature)
            except seams.SimCancelled:
                res['harness_error'] = 'SimCancelled escaped the executor\n' + traceback.format_exc()
            except _artifact_errors() as e:
                # the reference peer could not parse an artifact under test at a place where the executor did not
                # expect that: the artifact (made or re-exported by PGPy) is not well-formed OpenPGP.  On the unchanged
                # tree this never happens (every check passes thousands of runs under many seeds); reporting it as a
                # harness error would hide a real break behind exit 2.
                tb = traceback.extract_tb(e.__traceback__)
                where = next(('%s:%d' % (os.path.basename(f.filename), f.lineno) for f in reversed(tb)
                              if '/pgpsim/props/' in f.filename), '?')
                sig = '%s:artifact-unparsable:%s' % (prop, type(e).__name__)
                v = {'signature': sig, 'message': 'an artifact under test is not well-formed: %s (at %s)' % (e, where), 'step': ctx.step}
                if sig in ctx.known:
                    res['known'] = v
                else:
                    res['violation'] = v
                ctx.event('END', sig)
            except Exception:
                res['harness_error'] = traceback.format_exc()
            finally:
                logging.disable(logging.NOTSET)
    finally:
        if was_gc:
            gc.enable()
        gc.collect()
        seams.set_s2k_count(255)
    if collect_all:
        res['all_violations'] = ctx.all_violations
    res.update({
        'digest': ctx.digest(),
        'nsteps': ctx.steps_done,
        'probes': ctx.probes,
        'faults': ctx.faults,
        'perturbs': ctx.perturbs,
        'nontrivial': sorted(ctx.nontrivial),
        'oracle_evals': ctx.oracle_evals,
        'sim_us': clock.us - t0,
        'urandom_draws': len(rnd.log),
        'clock_reads': clock.reads,
        'events': ctx.events if case.get('keep_events') else None,
    })
    return res


def generate_case(prop, tier, base_seed, index, known_triggers=None):
    mod = load_prop(prop)
    run_seed = run_seed_for(base_seed, prop, index)
    rng = random.Random(run_seed)
    case = mod.generate(rng, tier)
    case['property'] = prop
    case['run_seed'] = run_seed
    case['index'] = index
    case['tier'] = tier
    cls, hs, tz = env_for(base_seed, index)
    case['env'] = {'PYTHONHASHSEED': hs, 'TZ': tz}
    return case


def skeleton(case):
    """Abstract shape of a case: the sequence of step kinds (and fault kinds).
    Used as the distinctness measure in evidence."""
    out = []
    for s in case.get('steps', []):
        k = s.get('op', '?')
        f = s.get('fault')
        if isinstance(f, dict):
            k += '!' + str(f.get('kind'))
        elif f:
            k += '!' + str(f)
        out.append(k)
    return ','.join(out)


def jdump(obj):
    return json.dumps(obj, sort_keys=True, separators=(',', ':'))
