"""Regenerate MANIFEST.json from the table below (run by hand after adding a check)."""
import json, os, sys
V = '/verif'
CHECKS = json.load(open(os.path.join(V, 'tools', 'checks.json')))
props = [json.loads(l) for l in open(os.path.join(V, 'properties.jsonl'))]
ids = [p['id'] for p in props]
man = {
    'version': 1,
    'setup_cmd': './check setup',
    'hooks': {
        'guard': 'PGPY_VERIF',
        'enable': 'no source hook is needed: every seam is an existing module-level name of pgpy (datetime in pgpy.pgp / pgpy.packet.packets / pgpy.packet.subpackets.signature; rsa, dsa, ec, ed25519, x25519 in pgpy.packet.fields; open in pgpy.types / pgpy.pgp) or an os function (os.urandom, os.path.isfile/getsize/getmtime) that pgpsim/seams.py replaces at run time inside the check process only; the checks import pgpy from /repo working tree directly',
        'baseline_off_cmd': 'cd /repo && /venv/bin/python -m pytest -ra -q -p no:cacheprovider --timeout=900 --continue-on-collection-errors',
        'source_commits': [],
        'add_only': True,
    },
    'engines': [{
        'name': 'pgpsim',
        'path': 'pgpsim/',
        'serves_properties': [c['property_id'] for c in CHECKS['checks']],
        'kind_free_text': 'deterministic simulation with fault injection: seeded generator of operation/fault/clock histories over a small in-process OpenPGP world (real pgpy code, simulated clock / randomness / key generation / files / transport), independent reference peer as oracle, ddmin minimiser, step-list replay files',
    }],
    'checks': [],
    'not_applicable': [],
    'notes': 'exit 0 = held; exit 1 = VIOLATION line; exit 2 = harness error (never a VIOLATION). VERIF_SEED selects the batch seed. Known findings: known_findings.json (committed, never written at run time).',
}
claimed = set()
for c in CHECKS['checks']:
    pid = c['property_id']
    claimed.add(pid)
    man['checks'].append({
        'property_id': pid,
        'quick_cmd': './check %s quick' % pid,
        'thorough_cmd': './check %s thorough' % pid,
        'evidence_file': 'evidence/%s.json' % pid,
        'replay_cmd_template': './check %s --replay {path}' % pid,
        'engine': 'pgpsim',
        'level_claimed': {'category': 'exploration', 'text': c['text'], 'design_ref': c['design_ref']},
        'level_note': c['note'],
        'technique': c['technique'],
    })
for pid in ids:
    if pid not in claimed:
        man['not_applicable'].append({'property_id': pid, 'reason': CHECKS['not_applicable'].get(pid, 'no check registered yet (work in progress; see DESIGN.md section 7)')})
json.dump(man, open(os.path.join(V, 'MANIFEST.json'), 'w'), indent=1)
print('claimed', sorted(claimed), 'n/a', [x['property_id'] for x in man['not_applicable']])
