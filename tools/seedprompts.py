"""usage: tools/seedprompts.py OUTDIR [ID ...]  -- write one sub-agent prompt per property for the next seeded round, from the round-3
prompt template in tools/seedprompt_templates and the summaries of all earlier changes under seeded/"""
import json, os, re, sys
out = sys.argv[1]; os.makedirs(out, exist_ok=True)
ids = sys.argv[2:] or ['C01','C02','C03','C04','C05','C06','C07','C08','C10','C11','C13','C14','C15','C16','C17','C18','C19','C20']
for pid in ids:
    rs = [int(x.rsplit('-r', 1)[1]) for x in os.listdir('/verif/seeded') if x.startswith(pid + '-r')]
    lr = max(rs); new = lr + 1
    s3 = open('/verif/tools/seedprompt_templates/%s.txt' % pid).read()
    sums = [json.load(open('/verif/seeded/%s/meta.json' % pid)).get('summary') or '']
    for r in range(2, lr + 1):
        p = '/verif/seeded/%s-r%d/meta.json' % (pid, r)
        if os.path.exists(p):
            sums.append(json.load(open(p)).get('summary') or '')
    lst = '; '.join('(%d) "%s"' % (i + 1, x.replace('"', "'")[:380]) for i, x in enumerate(sums))
    m = re.search(r'7\. IMPORTANT - be different:.*?\. Pick a different mechanism', s3, re.S)
    s = s3[:m.start()] + '7. IMPORTANT - be different: earlier changes for this property already exist and must NOT be repeated or varied: ' + lst + '. Pick a different mechanism' + s3[m.end():]
    s = s.replace('seed3-' + pid, 'seed%d-%s' % (new, pid))
    open('%s/%s.txt' % (out, pid), 'w').write(s)
    print(pid, 'seed%d-%s' % (new, pid))
