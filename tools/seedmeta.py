"""usage: tools/seedmeta.py NAME PROPERTY 'caught_by text' 'notes'  -> writes seeded/NAME/meta.json from agent_meta.json + check_results.txt"""
import json, sys, os
name, prop, caught, notes = sys.argv[1:5]
d = '/verif/seeded/' + name
am = json.load(open(d + '/agent_meta.json')) if os.path.exists(d + '/agent_meta.json') else {}
res = open(d + '/check_results.txt').read().strip().splitlines() if os.path.exists(d + '/check_results.txt') else []
meta = {'property': prop, 'summary': am.get('summary'), 'needs': am.get('needs'), 'files': am.get('files'),
        'origin': 'independent sub-agent given only the property text and its own scratch worktree',
        'confirmed': {'what_i_ran': 'tools/seeded.sh: patch applied to a scratch worktree of /repo HEAD; baseline pytest command; demo.py on modified and on /repo; ./check <ID> quick with PGPSIM_REPO pointing at the scratch tree',
                      'results': res},
        'caught_by': caught, 'notes': notes}
json.dump(meta, open(d + '/meta.json', 'w'), indent=1)
print('wrote', d + '/meta.json')
