#!/bin/sh
# usage: tools/soak.sh "<seeds>" "<props>"   -- quick checks under several VERIF_SEED values; prints anything that is not ok
cd "$(dirname "$0")/.."
for s in $1; do
  for p in $2; do
    out=$(VERIF_SEED=$s ./check $p quick 2>&1); rc=$?
    if [ $rc -ne 0 ]; then echo "### seed=$s $p rc=$rc"; echo "$out" | grep -E "VIOLATION|signature|HARNESS|violation in" | head -8; else echo "ok seed=$s $p"; fi
  done
done
