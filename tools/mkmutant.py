"""usage: tools/mkmutant.py NAME FILE <<< 'OLD\n=====\nNEW'   (creates selftest/mutants/NAME.patch against /repo HEAD)"""
import sys, subprocess, os, tempfile, shutil
name, rel = sys.argv[1], sys.argv[2]
old, new = sys.stdin.read().split('\n=====\n')
old = old.strip('\n'); new = new.rstrip('\n').lstrip('\n')
d = tempfile.mkdtemp(prefix='mk', dir='/tmp')
subprocess.check_call(['git', '-C', '/repo', 'worktree', 'add', '-q', '--detach', d + '/w', 'HEAD'])
try:
    p = os.path.join(d, 'w', rel)
    s = open(p).read()
    assert s.count(old) == 1, 'old text occurs %d times' % s.count(old)
    open(p, 'w').write(s.replace(old, new))
    diff = subprocess.check_output(['git', '-C', d + '/w', 'diff'])
    out = '/verif/selftest/mutants/%s.patch' % name
    open(out, 'wb').write(diff)
    print('wrote', out, len(diff), 'bytes')
finally:
    subprocess.call(['git', '-C', '/repo', 'worktree', 'remove', '--force', d + '/w'])
    shutil.rmtree(d, ignore_errors=True)
