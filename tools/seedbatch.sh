#!/bin/sh
# usage: tools/seedbatch.sh [force-ID-rN ...]   -- confirm every finished sub-agent seed under /tmp/seed<k>-<ID>-out that has no
# results yet (or is named as an argument), one after the other; prints one summary block per seed
for d in /tmp/seed[0-9]*-C[0-9][0-9]-out; do
  [ -f "$d/meta.json" ] && [ -f "$d/patch.diff" ] || continue
  b=$(basename "$d" -out); k=${b%%-*}; k=${k#seed}; id=${b#*-}
  name="$id-r$k"
  force=0; for a in "$@"; do [ "$a" = "$name" ] && force=1; done
  [ -f "/verif/seeded/$name/check_results.txt" ] && [ $force = 0 ] && continue
  echo "===== $name"
  /verif/tools/seeded.sh "$id" "$id" "$name" "seed$k" 2>&1 | grep -E "demo exit|VIOLATION prop|^ok|PATCH|signature|HARNESS" | cut -c1-220
done
