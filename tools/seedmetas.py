"""usage: tools/seedmetas.py  -- write meta.json for every seeded/<name> that has check_results.txt but no meta.json, deriving
'caught_by' from the recorded result; a hand-written note can be added later with tools/seedmeta.py"""
import json, os, re, sys
root = '/verif/seeded'
notes = dict(a.split('=', 1) for a in sys.argv[1:] if '=' in a)
for name in sorted(os.listdir(root)):
    d = os.path.join(root, name)
    cr = os.path.join(d, 'check_results.txt')
    if not os.path.exists(cr) or (os.path.exists(os.path.join(d, 'meta.json')) and name not in notes):
        continue
    res = open(cr).read().strip().splitlines()
    prop = name.split('-')[0]
    caught = any('VIOLATION' in l for l in res)
    am = json.load(open(os.path.join(d, 'agent_meta.json'))) if os.path.exists(os.path.join(d, 'agent_meta.json')) else {}
    meta = {'property': prop, 'summary': am.get('summary'), 'needs': am.get('needs'), 'files': am.get('files'),
            'origin': 'independent sub-agent given only the property text and its own scratch worktree',
            'confirmed': {'what_i_ran': 'tools/seeded.sh: patch applied to a scratch worktree of /repo HEAD; baseline pytest command; demo.py on modified and on /repo; ./check <ID> quick with PGPSIM_REPO pointing at the scratch tree',
                          'results': res},
            'caught_by': ('%s quick' % prop) if caught else 'NOT CAUGHT by the recorded run',
            'notes': notes.get(name, 'caught by the check as it stood when the result was recorded' if caught else '')}
    json.dump(meta, open(os.path.join(d, 'meta.json'), 'w'), indent=1)
    print('wrote', name, 'caught' if caught else 'MISSED')
