"""like survey.py but stops each run at its first violation (state after a defect is unreliable)"""
import sys, os, collections, re
sys.path[:0] = ['/verif', os.environ.get('PGPSIM_REPO', '/repo')]
from pgpsim import core, findings
prop = sys.argv[1].upper(); n = int(sys.argv[2]); tier = sys.argv[3] if len(sys.argv) > 3 else 'quick'
start = int(os.environ.get('START', '0'))
mask = set(os.environ.get('MASK', '').split(',')) - {''}
tally = collections.Counter(); first = {}; herr = 0
for i in range(start, start + n):
    case = core.generate_case(prop, tier, int(os.environ.get('VERIF_SEED', '0')), i)
    res = core.run_case(prop, case, known=mask)
    if res['harness_error']:
        herr += 1
        if herr <= 2: print('HARNESS', i, res['harness_error'][-1800:])
    v = res['violation']
    if v:
        key = v['signature'] + ' :: ' + re.sub(r'[0-9a-f]{16,}', '<hex>', v['message'])[:260]
        tally[key] += 1; first.setdefault(key, i)
for k, v in tally.most_common(40):
    print(v, 'first@%d' % first[k], k)
print('harness errors', herr)
