"""debug: run one generated case in-process.  usage: tools/one.py PROP INDEX [tier] [--min] [--all] [--events]"""
import sys, json, os
sys.path[:0] = ['/verif', os.environ.get('PGPSIM_REPO', '/repo')]
from pgpsim import core, minimise
prop = sys.argv[1].upper(); idx = int(sys.argv[2])
tier = sys.argv[3] if len(sys.argv) > 3 and not sys.argv[3].startswith('--') else 'quick'
seed = int(os.environ.get('VERIF_SEED', '0'))
case = core.generate_case(prop, tier, seed, idx)
case['keep_events'] = '--events' in sys.argv
from pgpsim import findings
known = [f['signature'] for f in findings.load(prop) if f.get('status') == 'open'] if '--mask' in sys.argv else []
res = core.run_case(prop, case, known=known, collect_all='--all' in sys.argv)
print('env', case['env'], 'nsteps', len(case['steps']))
if res.get('events'):
    for e in res['events']: print('  ', e)
print(json.dumps({k: res[k] for k in ('violation', 'known', 'harness_error', 'probes', 'faults', 'nontrivial', 'oracle_evals')}, indent=1, default=str))
if res.get('all_violations'):
    for v in res['all_violations']: print('ALL', v)
if res['harness_error']: print(res['harness_error'])
if '--min' in sys.argv and res['violation']:
    case['expect'] = res['violation']; case['masked'] = known
    small = minimise.minimise(case, 120)
    print(json.dumps({'config': small['config'], 'steps': small['steps']}, indent=1))
