"""Capture a minimal replay for a finding on a given tree.
usage: PGPSIM_REPO=/tmp/pgpy-base tools/capture.py PROP SIGPREFIX OUTFILE [maxindex] [tier] [required-probe]"""
import sys, os, json
repo = os.environ.get('PGPSIM_REPO', '/repo')
sys.path[:0] = ['/verif', repo]
from pgpsim import core, minimise
prop, prefix, out = sys.argv[1].upper(), sys.argv[2], sys.argv[3]
maxi = int(sys.argv[4]) if len(sys.argv) > 4 else 2000
tier = sys.argv[5] if len(sys.argv) > 5 else 'quick'
need = sys.argv[6] if len(sys.argv) > 6 else None
for i in range(maxi):
    case = core.generate_case(prop, tier, 0, i)
    res = core.run_case(prop, case, collect_all=True)
    hit = [v for v in res['all_violations'] if v[0].startswith(prefix)]
    if not hit or (need and not res['probes'].get(need)):
        continue
    masked = sorted(set(v[0] for v in res['all_violations'] if not v[0].startswith(prefix)))
    # the first violation reached (with the others masked) must be ours
    r2 = core.run_case(prop, case, known=masked)
    if not r2['violation'] or not r2['violation']['signature'].startswith(prefix):
        continue
    case['expect'] = r2['violation']
    case['masked'] = masked
    small = minimise.minimise(case, 90)
    small['tree'] = core.tree_id()
    json.dump(small, open(out, 'w'), indent=1, sort_keys=True)
    print('captured index', i, r2['violation']['signature'], 'steps', len(small['steps']), 'masked', masked)
    break
else:
    print('not found')
