#!/bin/sh
# usage: tools/mutant.sh <patch-file> <PROP>[,PROP...] [tier]   -- run checks against a scratch copy of /repo HEAD + patch
set -e
PATCH="$(realpath "$1")"; PROPS="$2"; TIER="${3:-quick}"
D=/tmp/pgpy-mut-$$
git -C /repo worktree add -q --detach "$D" HEAD
trap 'git -C /repo worktree remove --force "$D" >/dev/null 2>&1 || rm -rf "$D"' EXIT
git -C "$D" apply "$PATCH"
rc=0
for P in $(echo "$PROPS" | tr ',' ' '); do
  echo "== $P on $(basename "$PATCH")"
  PGPSIM_REPO="$D" PGPSIM_ANCHOR_REPO=/repo /verif/check "$P" "$TIER" | tail -4 || rc=$?
done
exit 0
