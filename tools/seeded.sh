#!/bin/sh
# usage: tools/seeded.sh <ID> <PROP>[,PROP...] [name]  -- confirm a sub-agent's seeded defect and run checks against it
ID="$1"; PROPS="$2"; NAME="${3:-$1}"; PFX="${4:-seed}"
SRC=/tmp/$PFX-$ID-out
D=/tmp/sv-$ID-$$
[ -f "$SRC/patch.diff" ] || { echo "no patch in $SRC"; exit 2; }
git -C /repo worktree add -q --detach "$D" HEAD || exit 2
trap 'git -C /repo worktree remove --force "$D" >/dev/null 2>&1; git -C /repo worktree remove --force /tmp/'$PFX'-'$ID' >/dev/null 2>&1; true' EXIT
if ! git -C "$D" apply "$SRC/patch.diff"; then echo "PATCH DOES NOT APPLY"; exit 2; fi
echo "--- tests with the change"
(cd "$D" && timeout 1500 /venv/bin/python -m pytest -q -p no:cacheprovider --timeout=900 --continue-on-collection-errors 2>&1 | tail -1) | tee /tmp/sv-tests-$ID.txt
echo "--- demo on modified / original"
timeout 300 /venv/bin/python "$SRC/demo.py" "$D" >/tmp/sv-demo-mod-$ID.txt 2>&1; M=$?
timeout 300 /venv/bin/python "$SRC/demo.py" /repo >/tmp/sv-demo-orig-$ID.txt 2>&1; O=$?
echo "demo exit: modified=$M original=$O"; tail -3 /tmp/sv-demo-mod-$ID.txt
mkdir -p /verif/seeded/$NAME
cp "$SRC/patch.diff" "$SRC/demo.py" /verif/seeded/$NAME/ 2>/dev/null
cp "$SRC/meta.json" /verif/seeded/$NAME/agent_meta.json 2>/dev/null
: > /verif/seeded/$NAME/check_results.txt
for P in $(echo "$PROPS" | tr ',' ' '); do
  echo "--- check $P"
  PGPSIM_REPO="$D" PGPSIM_ANCHOR_REPO=/repo /verif/check "$P" quick > /tmp/sv-check-$ID-$P.txt 2>&1; RC=$?
  grep -E "VIOLATION|^ok|signature|HARNESS" /tmp/sv-check-$ID-$P.txt | head -6
  echo "$P quick exit=$RC: $(grep -E 'VIOLATION|^ok' /tmp/sv-check-$ID-$P.txt | head -1)" >> /verif/seeded/$NAME/check_results.txt
done
echo "tests: $(cat /tmp/sv-tests-$ID.txt | sed 's/\x1b\[[0-9;]*m//g')" >> /verif/seeded/$NAME/check_results.txt
echo "demo: modified=$M original=$O" >> /verif/seeded/$NAME/check_results.txt
